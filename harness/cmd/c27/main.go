// c27: conformance harness binding the authentication layer of spec/TLSHandshake.tla
// (AuthDemand / Judge27) to real zcrypto client/server pairs.  A case fixes version, key
// exchange class, a server-authentication scenario, a client-certificate scenario and the
// server's ClientAuthType; PKI scenarios are concretised through lib/pki (standard library),
// wire scenarios by flipping bytes of the named message in flight.  The harness only executes
// and observes; the standard library's own verdict on the PKI is logged next to the outcome
// (abstraction-back check) and TLC judges.
//
//	c27 facts | run <cases> <obs> | random <n> <cases> | run-one <replay> <obs>
package main

import (
	"crypto"
	"encoding/json"
	"fmt"
	"io"
	"math/rand"
	"os"
	"strconv"
	"sync"

	"github.com/zmap/zcrypto/tls"
	"verifharness/lib/obs"
	"verifharness/lib/tlsh"
)

type Case27 struct {
	ID    int    `json:"id"`
	Vers  int    `json:"vers"`  // 10..13, both sides pinned to it
	Suite int    `json:"suite"` // TLS <= 1.2: the only suite both sides list (0: defaults, TLS 1.3)
	Key   string `json:"key"`   // server key type
	Scen  string `json:"scen"`
	CScen string `json:"cscen"`
	CKey  string `json:"ckey"`
	Auth  int    `json:"auth"`
	CAs   string `json:"cas"` // the server's ClientCAs class ("" = "with")
}

type Rec struct {
	Case27
	Std       tlsh.StdVerdict `json:"std"`
	Fired     string          `json:"fired"`     // the wire corruption that hit its message ("" = none)
	SigFired  string          `json:"sigfired"`  // the server's proof-of-possession signature was replaced by a structurally wrong one (scenario name)
	CSigFired string          `json:"csigfired"` // same for the client's CertificateVerify
	Obs       tlsh.Obs        `json:"obs"`
}

// badSigner is a key-substituting peer: it holds the genuine key object (so every length prefix and
// both transcripts stay consistent - the messages are built by zcrypto itself) but hands out a
// structurally wrong signature: empty, the genuine one truncated by one byte, or extended by one.
type badSigner struct {
	inner crypto.Signer
	mode  string
	mu    sync.Mutex
	used  bool
}

func (b *badSigner) Public() crypto.PublicKey { return b.inner.Public() }
func (b *badSigner) Sign(rnd io.Reader, digest []byte, opts crypto.SignerOpts) ([]byte, error) {
	sig, err := b.inner.Sign(rnd, digest, opts)
	if err != nil {
		return nil, err
	}
	b.mu.Lock()
	b.used = true
	b.mu.Unlock()
	switch b.mode {
	case "Empty":
		return []byte{}, nil
	case "Short":
		return sig[:len(sig)-1], nil
	case "Long":
		return append(append([]byte(nil), sig...), 0), nil
	}
	obs.Fatal("unknown signature corruption %q", b.mode)
	return nil, nil
}
func (b *badSigner) fired() bool {
	b.mu.Lock()
	defer b.mu.Unlock()
	return b.used
}

// badSignerDecrypter: RSA keys also serve the RSA key exchange
type badSignerDecrypter struct{ *badSigner }

func (b badSignerDecrypter) Decrypt(rnd io.Reader, msg []byte, opts crypto.DecrypterOpts) ([]byte, error) {
	return b.inner.(crypto.Decrypter).Decrypt(rnd, msg, opts)
}

func wrapKey(key crypto.PrivateKey, mode string) (crypto.PrivateKey, *badSigner) {
	bs := &badSigner{inner: key.(crypto.Signer), mode: mode}
	if _, ok := key.(crypto.Decrypter); ok {
		return badSignerDecrypter{bs}, bs
	}
	return bs, bs
}

var sigModes = map[string]string{"SigEmpty": "Empty", "SigShort": "Short", "SigLong": "Long",
	"ClientSigEmpty": "Empty", "ClientSigShort": "Short", "ClientSigLong": "Long"}

var wireScen = map[string]bool{"CorruptSKXSig": true, "CorruptSKXParams": true, "CorruptServerFinished": true,
	"CorruptClientFinished": true, "CorruptClientCV": true}

// corrupt returns the transport filter of a wire scenario and a flag telling whether it fired.
func corrupt(scen, cscen string, vers int) (tlsh.Filter, *bool) {
	var mu sync.Mutex
	applied := new(bool)
	seenCCS := [2]bool{}
	enc := [2]int{}
	target := scen
	if cscen == "CorruptClientCV" {
		target = cscen
	}
	if !wireScen[target] {
		return nil, applied
	}
	flipLast := func(rec []byte) *tlsh.Action {
		out := append([]byte(nil), rec...)
		out[len(out)-1] ^= 0x01
		*applied = true
		return &tlsh.Action{Deliver: [][]byte{out}}
	}
	return func(dir, idx int, rec []byte) *tlsh.Action {
		mu.Lock()
		defer mu.Unlock()
		if *applied || len(rec) < 6 {
			return nil
		}
		typ := rec[0]
		if typ == tlsh.RecCCS {
			seenCCS[dir] = true
			return nil
		}
		plain := typ == tlsh.RecHandshake && !seenCCS[dir]
		switch target {
		case "CorruptSKXSig":
			if dir == tlsh.S2C && plain && rec[5] == 12 {
				return flipLast(rec)
			}
		case "CorruptSKXParams":
			if dir == tlsh.S2C && plain && rec[5] == 12 && len(rec) > 24 {
				out := append([]byte(nil), rec...)
				out[5+4+10] ^= 0x40 // inside the server's ECDHE point / DH prime
				*applied = true
				return &tlsh.Action{Deliver: [][]byte{out}}
			}
		case "CorruptClientCV":
			if dir == tlsh.C2S && plain && rec[5] == 15 {
				return flipLast(rec)
			}
		case "CorruptServerFinished", "CorruptClientFinished":
			want := tlsh.S2C
			if target == "CorruptClientFinished" {
				want = tlsh.C2S
			}
			if dir != want {
				return nil
			}
			if vers <= 12 {
				if typ == tlsh.RecHandshake && seenCCS[dir] {
					return flipLast(rec)
				}
			} else if typ == tlsh.RecAppData {
				// TLS 1.3: every record after the hellos is protected; the Finished message is in
				// the last record of the flight - the server's first flight has (EE, [CR], Cert, CV,
				// Fin) one record each, the client's ([Cert, CV], Fin).  Corrupting the first
				// protected record of the direction breaks the flight just the same.
				enc[dir]++
				if enc[dir] == 1 {
					return flipLast(rec)
				}
			}
		}
		return nil
	}, applied
}

func runCase(cs Case27) Rec {
	rec := Rec{Case27: cs}
	ep := tlsh.EP{Min: cs.Vers, Max: cs.Vers}
	if cs.Suite != 0 {
		ep.Suites = []int{cs.Suite}
	}
	abs := tlsh.Case{ID: cs.ID, C: ep.NonNil(), S: ep.NonNil(), Scen: cs.Scen, CScen: cs.CScen, CKey: cs.CKey, CAs: cs.CAs}
	abs.C.Force = true // DHE suites are only offered with ForceSuites; harmless for the others
	if cs.Suite == 0 {
		abs.C.Force = false
	}
	abs.S.Key, abs.S.Auth = cs.Key, cs.Auth
	b, err := tlsh.Build(abs, true)
	if err != nil {
		obs.Fatal("case %d: %v", cs.ID, err)
	}
	rec.Std = b.PKI.Std()
	var sbad, cbad *badSigner
	if m, ok := sigModes[cs.Scen]; ok {
		var k crypto.PrivateKey
		k, sbad = wrapKey(b.PKI.ServerKey, m)
		b.Server.Certificates[0].PrivateKey = k
	}
	if m, ok := sigModes[cs.CScen]; ok && b.PKI.ClientKey != nil {
		var k crypto.PrivateKey
		k, cbad = wrapKey(b.PKI.ClientKey, m)
		cert := tls.Certificate{Certificate: b.PKI.ClientChain, PrivateKey: k}
		b.Client.GetClientCertificate = func(*tls.CertificateRequestInfo) (*tls.Certificate, error) { return &cert, nil }
	}
	f, applied := corrupt(cs.Scen, cs.CScen, cs.Vers)
	r := tlsh.Run(b.Client, b.Server, tlsh.RunOpt{Filter: f})
	rec.Obs = tlsh.Observe(r)
	if sbad != nil && sbad.fired() {
		rec.SigFired = cs.Scen
	}
	if cbad != nil && cbad.fired() {
		rec.CSigFired = cs.CScen
	}
	if *applied {
		rec.Fired = cs.Scen
		if cs.CScen == "CorruptClientCV" {
			rec.Fired = cs.CScen
		}
	}
	return rec
}

var serverScens = []string{"Trusted", "UntrustedRoot", "Expired", "NotYetValid", "WrongName", "WrongKey", "BadLeafSig",
	"NameIP4Listed", "NameIP4Unlisted", "NameIP6BracketListed", "NameIP6BracketUnlisted", "NameIP6ZoneListed", "NameDNSTrailingDot",
	"CorruptSKXSig", "CorruptSKXParams", "CorruptServerFinished", "CorruptClientFinished", "SigEmpty", "SigShort", "SigLong"}
var clientScens = []string{"NoClientCert", "ClientTrusted", "ClientUntrusted", "ClientExpired", "ClientWrongKey", "ClientServerEKU", "CorruptClientCV",
	"ClientSigEmpty", "ClientSigShort", "ClientSigLong"}

// combos of (version, suite, server key) the random generator draws from
var combos = [][3]interface{}{
	{10, 47, "R"}, {10, 49171, "R"}, {10, 49161, "P"}, {10, 51, "R"}, {10, 10, "R"}, {10, 49162, "Q"},
	{11, 53, "R"}, {11, 49172, "R"}, {11, 49161, "P"}, {11, 57, "R"}, {11, 5, "R"},
	{12, 156, "R"}, {12, 49199, "R"}, {12, 49195, "P"}, {12, 49195, "E"}, {12, 158, "R"}, {12, 52393, "Q"}, {12, 49191, "R"}, {12, 52394, "R"},
	{13, 0, "R"}, {13, 0, "P"}, {13, 0, "E"}, {13, 0, "Q"},
}

func randomCase(r *rand.Rand, id int) Case27 {
	c := combos[r.Intn(len(combos))]
	cs := Case27{ID: id, Vers: c[0].(int), Suite: c[1].(int), Key: c[2].(string)}
	cs.Scen = serverScens[r.Intn(len(serverScens))]
	cs.CScen = clientScens[r.Intn(len(clientScens))]
	cs.Auth = r.Intn(5)
	cs.CKey = []string{"P", "R", "E", "Q"}[r.Intn(4)]
	if cs.Vers < 12 && cs.CKey == "E" {
		cs.CKey = "P"
	}
	if _, ok := sigModes[cs.Scen]; ok && (cs.Suite == 51 || cs.Suite == 57 || cs.Suite == 158 || cs.Suite == 52394) {
		cs.Scen = "Trusted" // zcrypto's DHE_RSA key agreement only works with a concrete RSA key object
	}
	cs.CAs = []string{"with", "with", "with", "nil", "empty", "without"}[r.Intn(6)]
	return cs
}

func main() {
	if len(os.Args) < 2 {
		obs.Fatal("usage")
	}
	switch os.Args[1] {
	case "facts":
		b, _ := json.Marshal(tlsh.GetFacts())
		fmt.Println(string(b))
	case "random":
		n, _ := strconv.Atoi(os.Args[2])
		w := obs.NewWriter(os.Args[3])
		r := rand.New(rand.NewSource(obs.Seed()))
		for i := 0; i < n; i++ {
			w.Write(randomCase(r, i+1))
		}
		w.Close()
		obs.Stat("cases", n)
	case "run":
		var cases []Case27
		tlsh.ReadCases(os.Args[2], func(line []byte) error {
			var c Case27
			if err := json.Unmarshal(line, &c); err != nil {
				return err
			}
			cases = append(cases, c)
			return nil
		})
		recs := make([]Rec, len(cases))
		tlsh.Parallel(len(cases), func(i int) { recs[i] = runCase(cases[i]) })
		w := obs.NewWriter(os.Args[3])
		for _, r := range recs {
			w.Write(r)
		}
		w.Close()
		obs.Stat("cases", len(cases))
	case "runh":
		var cases []CaseH
		tlsh.ReadCases(os.Args[2], func(line []byte) error {
			var c CaseH
			if err := json.Unmarshal(line, &c); err != nil {
				return err
			}
			cases = append(cases, c)
			return nil
		})
		recs := make([]RecH, len(cases))
		tlsh.Parallel(len(cases), func(i int) { recs[i] = runHist(cases[i]) })
		w := obs.NewWriter(os.Args[3])
		for _, r := range recs {
			w.Write(r)
		}
		w.Close()
		obs.Stat("cases", len(cases))
	case "runh-one":
		var c CaseH
		obs.ReadReplay(os.Args[2], &c)
		w := obs.NewWriter(os.Args[3])
		w.Write(runHist(c))
		w.Close()
	case "run-one":
		var c Case27
		obs.ReadReplay(os.Args[2], &c)
		w := obs.NewWriter(os.Args[3])
		w.Write(runCase(c))
		w.Close()
	default:
		obs.Fatal("unknown command")
	}
}
