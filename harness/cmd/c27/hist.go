package main

// Multi-step authentication histories: 2-3 connections that share a ClientSessionCache and the
// server's ticket keys, while the client's verification settings (InsecureSkipVerify, ServerName,
// Time) or the server's certificate change between connections.  For every connection the harness
// logs who completed, whether it was resumed, which step the resumed session came from, and the
// standard library's verdict on the chain the connection relies on (the chain presented in this
// connection, or - for a resumed one - the chain presented when the session was established) under
// THIS connection's roots, name and time.  TLC (Judge27H) judges.

import (
	"crypto/sha256"
	stdx509 "crypto/x509"
	"sync"
	"time"

	"github.com/zmap/zcrypto/tls"
	"verifharness/lib/obs"
	"verifharness/lib/pki"
	"verifharness/lib/tlsh"
)

type Step struct {
	Skip  bool   `json:"skip"`  // InsecureSkipVerify
	SCert string `json:"scert"` // "A": chain to the client's root; "B": same name, untrusted chain
	Name  string `json:"name"`  // "dns": the certificate's name; "other": a name the certificate lacks
	Time  string `json:"time"`  // "now" or "late" (both leaves expired)
}

type CaseH struct {
	ID    int    `json:"id"`
	Vers  int    `json:"vers"`
	Key   string `json:"key"`
	Steps []Step `json:"steps"`
}

type StepObs struct {
	CDone       bool `json:"cdone"`
	SDone       bool `json:"sdone"`
	CRes        bool `json:"cres"`
	SRes        bool `json:"sres"`
	DataOK      bool `json:"dataok"`
	Origin      int  `json:"origin"`       // 1-based step whose handshake established the session this connection resumed (0: not resumed)
	PresentedOK bool `json:"presented_ok"` // stdlib: the chain the server holds now verifies under this step's client settings
	ReliedOK    bool `json:"relied_ok"`    // stdlib: the chain this connection relies on verifies under this step's client settings
	CPanic      bool `json:"cpanic"`
	SPanic      bool `json:"spanic"`
	CHang       bool `json:"chang"`
	SHang       bool `json:"shang"`
	CErr        string `json:"cerr"`
	SErr        string `json:"serr"`
}

type RecH struct {
	CaseH
	Obs []StepObs `json:"obs"`
}

type putCache struct {
	mu   sync.Mutex
	m    map[string]*tls.ClientSessionState
	puts int
}

func (c *putCache) Get(k string) (*tls.ClientSessionState, bool) {
	c.mu.Lock()
	defer c.mu.Unlock()
	s, ok := c.m[k]
	return s, ok
}
func (c *putCache) Put(k string, s *tls.ClientSessionState) {
	c.mu.Lock()
	defer c.mu.Unlock()
	if s == nil {
		delete(c.m, k)
		return
	}
	c.m[k] = s
	c.puts++
}

func stdOK(chain, roots [][]byte, name string, at time.Time) bool {
	leaf, err := stdx509.ParseCertificate(chain[0])
	if err != nil {
		return false
	}
	rp, ip := stdx509.NewCertPool(), stdx509.NewCertPool()
	for _, r := range roots {
		if c, err := stdx509.ParseCertificate(r); err == nil {
			rp.AddCert(c)
		}
	}
	for _, i := range chain[1:] {
		if c, err := stdx509.ParseCertificate(i); err == nil {
			ip.AddCert(c)
		}
	}
	_, err = leaf.Verify(stdx509.VerifyOptions{Roots: rp, Intermediates: ip, DNSName: name, CurrentTime: at,
		KeyUsages: []stdx509.ExtKeyUsage{stdx509.ExtKeyUsageServerAuth}})
	return err == nil
}

func runHist(cs CaseH) RecH {
	rec := RecH{CaseH: cs, Obs: []StepObs{}}
	ep := tlsh.EP{Min: 10, Max: cs.Vers, Tickets: true}
	mk := func(scen string) *tlsh.Built {
		abs := tlsh.Case{ID: cs.ID, C: ep.NonNil(), S: ep.NonNil(), Scen: scen}
		abs.S.Key = cs.Key
		b, err := tlsh.Build(abs, true)
		if err != nil {
			obs.Fatal("case %d: %v", cs.ID, err)
		}
		return b
	}
	builds := map[string]*tlsh.Built{"A": mk("Trusted"), "B": mk("UntrustedRoot")}
	cache := &putCache{m: map[string]*tls.ClientSessionState{}}
	tkey := sha256.Sum256([]byte("verif c27 history ticket key"))
	type sess struct {
		step  int
		chain [][]byte
	}
	origins := map[string]sess{} // cache key (ServerName) -> the step whose handshake established the cached session
	for k, st := range cs.Steps {
		b := builds[st.SCert]
		if b == nil {
			obs.Fatal("case %d: unknown server certificate %q", cs.ID, st.SCert)
		}
		at := pki.At(tlsh.TNow)
		if st.Time == "late" {
			at = pki.At(tlsh.TExpired)
		}
		name := tlsh.ServerName
		if st.Name == "other" {
			name = "other.example"
		}
		cc := b.Client.Clone()
		cc.InsecureSkipVerify = st.Skip
		cc.ServerName = name
		cc.Time = func() time.Time { return at }
		cc.RootCAs = builds["A"].Client.RootCAs
		cc.ClientSessionCache = cache
		sc := b.Server.Clone()
		sc.Time = func() time.Time { return at }
		sc.SetSessionTicketKeys([][32]byte{tkey})
		putsBefore := cache.puts
		r := tlsh.Run(cc, sc, tlsh.RunOpt{})
		o := tlsh.Observe(r)
		so := StepObs{CDone: o.CDone, SDone: o.SDone, CRes: o.CRes, SRes: o.SRes, DataOK: o.DataOK, CPanic: o.CPanic,
			SPanic: o.SPanic, CHang: o.CHang, SHang: o.SHang, CErr: o.CErr, SErr: o.SErr}
		roots := builds["A"].PKI.ClientRoots
		so.PresentedOK = stdOK(b.PKI.ServerChain, roots, name, at)
		relied := b.PKI.ServerChain
		if o.CDone && o.CRes {
			og, ok := origins[name]
			if !ok {
				obs.Fatal("case %d step %d: resumed without a tracked session", cs.ID, k+1)
			}
			so.Origin = og.step
			relied = og.chain
		}
		so.ReliedOK = stdOK(relied, roots, name, at)
		if o.CDone && !o.CRes && cache.puts > putsBefore {
			origins[name] = sess{k + 1, b.PKI.ServerChain}
		}
		if _, ok := cache.Get(name); !ok {
			delete(origins, name)
		}
		rec.Obs = append(rec.Obs, so)
	}
	return rec
}
