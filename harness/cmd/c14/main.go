// c14: conformance harness binding CRL.tla to crl.CheckCRLForCert.
//
//	c14 replay-gen <universe.ndjson> <lookup.ndjson> <meta.ndjson>
//	       TLC-generated cases with the demanded results (CRLGen.tla); "-" skips a file
//	c14 replay <replay.json>      one case; exit 1 if the real code disagrees with the demand
//	c14 record <out.ndjson> <crls> <entries> <queries>
//	       seeded random CRLs on the real code -> observations for Trace_CRL.tla
//
// The harness never computes an expected value.  It builds the DER CRL with the standard library
// (lib/rev), parses it with zcrypto's x509.ParseDERCRL, checks that the parsed entry list is the
// abstract one (concretisation check), builds the cache the way callers do (crl_test.go: map keyed
// by SerialNumber.String()), calls CheckCRLForCert with and without the cache and projects
// RevocationData to the abstract observation.
package main

import (
	"encoding/json"
	"fmt"
	"math/big"
	"math/rand"
	"os"
	"sort"
	"strconv"
	"time"

	"github.com/zmap/zcrypto/x509"
	zpkix "github.com/zmap/zcrypto/x509/pkix"
	"github.com/zmap/zcrypto/x509/revocation/crl"
	"verifharness/lib/obs"
	"verifharness/lib/pki"
	"verifharness/lib/rev"
)

// ---- abstract cases ------------------------------------------------------------------------

type Res struct {
	Rev bool `json:"rev"`
	T   int  `json:"t"`
}

// LookupCase in concrete form (serial content octets), as stored in replay files.
type LookupCase struct {
	Kind    string      `json:"kind"` // "lookup"
	Entries []rev.Entry `json:"entries"`
	Q       rev.Bytes   `json:"q"`
	QIssuer string      `json:"qissuer"` // issuer name of the query certificate
	Rev     bool        `json:"rev"`
	T       int         `json:"t"`
	CT      []int       `json:"ct"` // times a cached lookup may report (-1 = not revoked)
}

type genLookup struct {
	E   [][2]int `json:"e"`
	Q   int      `json:"q"`
	Rev bool     `json:"rev"`
	T   int      `json:"t"`
	CT  []int    `json:"ct"`
}

type AbsCRL struct {
	Issuer     string    `json:"issuer"`
	ThisUpdate int       `json:"thisUpdate"`
	NextUpdate int       `json:"nextUpdate"`
	Exts       []rev.Ext `json:"exts"`
}

type Meta struct {
	Issuer     string    `json:"issuer"`
	ThisUpdate int       `json:"thisUpdate"`
	NextUpdate int       `json:"nextUpdate"`
	HasNum     bool      `json:"hasNum"`
	Num        rev.Bytes `json:"num"`
	NumFits    bool      `json:"numFits"`
	UnkCrit    []rev.Ext `json:"unkCrit"`
	UnkNon     []rev.Ext `json:"unkNon"`
}

type MetaCase struct {
	Kind string `json:"kind"` // "meta"
	CRL  AbsCRL `json:"crl"`
	Meta Meta   `json:"meta"`
}

// ---- concretisation ------------------------------------------------------------------------

var certCache = map[string]*x509.Certificate{}

// queryCert: a real certificate (parsed by zcrypto) with the given serial, issued by `iss`.
func queryCert(iss string, serial []byte) *x509.Certificate {
	k := iss + "/" + string(serial)
	if c, ok := certCache[k]; ok {
		return c
	}
	der := rev.CertWithSerial("Leaf", "Kleaf", iss, "K"+iss, serial)
	c, err := x509.ParseCertificate(der)
	if err != nil {
		obs.Fatal("zcrypto cannot parse the query certificate (serial %x): %v", serial, err)
	}
	// concretisation check through the parsed object as well
	if got := rev.ContentFromInt(c.SerialNumber); string(got) != string(serial) {
		obs.Fatal("query certificate serial: abstract %x, parsed %x", serial, []byte(got))
	}
	certCache[k] = c
	return c
}

func parseCRL(c rev.CRL) *zpkix.CertificateList {
	der := rev.BuildCRL(c)
	// abstraction function on the bytes (standard library): must give back the abstract entries
	back, err := rev.CRLEntriesFromDER(der)
	if err != nil {
		obs.Fatal("%v", err)
	}
	if len(back) != len(c.Entries) {
		obs.Fatal("CRL concretisation: %d entries built, %d read back", len(c.Entries), len(back))
	}
	for i := range back {
		if string(back[i].S) != string(c.Entries[i].S) || back[i].T != c.Entries[i].T {
			obs.Fatal("CRL concretisation: entry %d differs", i)
		}
	}
	cl, err := x509.ParseDERCRL(der)
	if err != nil {
		obs.Fatal("zcrypto ParseDERCRL rejects a well-formed CRL: %v", err)
	}
	// the parsed list must be the abstract list too (otherwise the lookup is judged on another
	// input than the specification's; that would be C05's business, not a C14 verdict)
	rcs := cl.TBSCertList.RevokedCertificates
	if len(rcs) != len(c.Entries) {
		obs.Fatal("parsed CRL has %d entries, abstract %d", len(rcs), len(c.Entries))
	}
	for i := range rcs {
		if string(rev.ContentFromInt(rcs[i].SerialNumber)) != string(c.Entries[i].S) || secs(rcs[i].RevocationTime) != c.Entries[i].T {
			obs.Fatal("parsed CRL entry %d differs from the abstract entry", i)
		}
	}
	return cl
}

func secs(t time.Time) int {
	if t.IsZero() {
		return -1
	}
	return int(t.Sub(pki.T0) / time.Second)
}

// buildCache: "a cache built from the same entries", exactly as crl_test.go builds it.
func buildCache(cl *zpkix.CertificateList) map[string]*zpkix.RevokedCertificate {
	cache := make(map[string]*zpkix.RevokedCertificate)
	rcs := cl.TBSCertList.RevokedCertificates
	for i := range rcs {
		cache[rcs[i].SerialNumber.String()] = &rcs[i]
	}
	return cache
}

func project(d *crl.RevocationData) Res {
	if !d.IsRevoked {
		return Res{false, -1}
	}
	return Res{true, secs(d.RevocationTime)}
}

// observe runs both paths of the real code.
func observe(cl *zpkix.CertificateList, cache map[string]*zpkix.RevokedCertificate, cert *x509.Certificate) (lin, cac Res, dl *crl.RevocationData) {
	var e1, e2 error
	var dc *crl.RevocationData
	o := obs.Guard(20*time.Second, func() {
		dl, e1 = crl.CheckCRLForCert(cl, cert, nil)
		dc, e2 = crl.CheckCRLForCert(cl, cert, cache)
	})
	if o.Panic != "" || o.Timeout {
		obs.Fatal("CheckCRLForCert panicked or hung (%q, timeout=%v) - outside C14's statement, see C01/C02", o.Panic, o.Timeout)
	}
	if e1 != nil || e2 != nil || dl == nil || dc == nil {
		obs.Fatal("CheckCRLForCert returned an error: %v %v", e1, e2)
	}
	return project(dl), project(dc), dl
}

// ---- lookup cases --------------------------------------------------------------------------

// checkLookup returns "" or a description of the disagreement plus its signature.
func checkLookup(c LookupCase) (string, map[string]any) {
	cl := parseCRL(rev.CRL{Issuer: "N1", ThisUpdate: 86400, NextUpdate: 172800, Entries: c.Entries})
	cert := queryCert(c.QIssuer, c.Q)
	lin, cac, _ := observe(cl, buildCache(cl), cert)
	occ := 0
	for _, e := range c.Entries {
		if string(e.S) == string(c.Q) {
			occ++
		}
	}
	base := map[string]any{"kind": "lookup", "want_rev": c.Rev, "occurrences": min(occ, 2), "wide": len(c.Q) > 8, "negative": c.Q[0]&0x80 != 0}
	if lin.Rev != c.Rev || (c.Rev && lin.T != c.T) {
		base["path"] = "linear"
		base["got_rev"] = lin.Rev
		base["time_only"] = lin.Rev == c.Rev
		return fmt.Sprintf("linear search: serial %x in %d entries: real (revoked=%v,t=%d), specification demands (revoked=%v,t=%d)", []byte(c.Q), len(c.Entries), lin.Rev, lin.T, c.Rev, c.T), base
	}
	okc := false
	for _, t := range c.CT {
		if (t == -1 && !cac.Rev) || (t >= 0 && cac.Rev && cac.T == t) {
			okc = true
		}
	}
	if !okc {
		base["path"] = "cached"
		base["got_rev"] = cac.Rev
		base["time_only"] = cac.Rev == c.Rev
		return fmt.Sprintf("cached lookup: serial %x in %d entries: real (revoked=%v,t=%d), specification allows times %v", []byte(c.Q), len(c.Entries), cac.Rev, cac.T, c.CT), base
	}
	return "", nil
}

// ---- meta cases ----------------------------------------------------------------------------

func nameID(n *zpkix.Name) string {
	if len(n.Names) == 2 && n.Names[0].Type.String() == "2.5.4.10" && n.Names[0].Value == "verif" &&
		n.Names[1].Type.String() == "2.5.4.3" && len(n.Organization) == 1 && n.Organization[0] == "verif" {
		if s, ok := n.Names[1].Value.(string); ok && s == n.CommonName {
			return s
		}
	}
	return "?" + n.String()
}

func projExts(xs []zpkix.Extension) []rev.Ext {
	out := []rev.Ext{}
	for _, x := range xs {
		out = append(out, rev.Ext{OID: x.Id.String(), Crit: x.Critical, Val: rev.Bytes(x.Value)})
	}
	return out
}

func sortExts(xs []rev.Ext) []string {
	var s []string
	for _, x := range xs {
		s = append(s, fmt.Sprintf("%s/%v/%x", x.OID, x.Crit, []byte(x.Val)))
	}
	sort.Strings(s)
	return s
}

func sameStrings(a, b []string) bool {
	if len(a) != len(b) {
		return false
	}
	for i := range a {
		if a[i] != b[i] {
			return false
		}
	}
	return true
}

func checkMeta(c MetaCase) (string, map[string]any) {
	// two entries so that the CRL is not degenerate; the query is not listed
	abs := rev.CRL{Issuer: c.CRL.Issuer, ThisUpdate: c.CRL.ThisUpdate, NextUpdate: c.CRL.NextUpdate, Exts: c.CRL.Exts,
		Entries: []rev.Entry{{S: rev.Bytes{5}, T: 100}, {S: rev.Bytes{6}, T: 200}}}
	cl := parseCRL(abs)
	// concretisation check of the list-level part through the standard library is implicit in
	// BuildCRL (it marshals exactly these fields); the extension list is re-read here
	if len(cl.TBSCertList.Extensions) != len(c.CRL.Exts) {
		obs.Fatal("parsed CRL has %d extensions, abstract %d", len(cl.TBSCertList.Extensions), len(c.CRL.Exts))
	}
	_, _, d := observe(cl, buildCache(cl), queryCert("N1", []byte{7}))
	var d2 *crl.RevocationData
	d2, _ = crl.CheckCRLForCert(cl, queryCert("N1", []byte{7}), buildCache(cl))
	for pi, dd := range []*crl.RevocationData{d, d2} {
		path := []string{"linear", "cached"}[pi]
		sig := map[string]any{"kind": "meta", "path": path}
		if got := nameID(&dd.Issuer); got != c.Meta.Issuer {
			sig["field"] = "issuer"
			return fmt.Sprintf("issuer: real %q, specification demands %q", got, c.Meta.Issuer), sig
		}
		if got := secs(dd.ThisUpdate); got != c.Meta.ThisUpdate {
			sig["field"] = "thisUpdate"
			return fmt.Sprintf("thisUpdate: real %d, specification demands %d", got, c.Meta.ThisUpdate), sig
		}
		if got := secs(dd.NextUpdate); got != c.Meta.NextUpdate {
			sig["field"] = "nextUpdate"
			sig["absent"] = c.Meta.NextUpdate == -1
			return fmt.Sprintf("nextUpdate: real %d, specification demands %d", got, c.Meta.NextUpdate), sig
		}
		if c.Meta.HasNum && c.Meta.NumFits {
			got := rev.ContentFromInt(big.NewInt(int64(dd.CRLExtensions.CRLNumber)))
			if string(got) != string(c.Meta.Num) {
				sig["field"] = "crlNumber"
				sig["width"] = len(c.Meta.Num)
				return fmt.Sprintf("CRL number: real %d (octets %x), specification demands octets %x", dd.CRLExtensions.CRLNumber, []byte(got), []byte(c.Meta.Num)), sig
			}
		}
		if g, w := sortExts(projExts(dd.UnknownCriticalCRLExtensions)), sortExts(c.Meta.UnkCrit); !sameStrings(g, w) {
			sig["field"] = "unknownCritical"
			return fmt.Sprintf("unknown critical extensions: real %v, specification demands %v", g, w), sig
		}
		if g, w := sortExts(projExts(dd.UnknownCRLExtensions)), sortExts(c.Meta.UnkNon); !sameStrings(g, w) {
			sig["field"] = "unknownNonCritical"
			return fmt.Sprintf("unknown non-critical extensions: real %v, specification demands %v", g, w), sig
		}
	}
	return "", nil
}

// ---- commands ------------------------------------------------------------------------------

func unquote(line []byte) []byte {
	if len(line) > 0 && line[0] == '"' {
		var s string
		if err := json.Unmarshal(line, &s); err != nil {
			obs.Fatal("bad quoted line: %v", err)
		}
		return []byte(s)
	}
	return line
}

func main() {
	if len(os.Args) < 3 {
		obs.Fatal("usage")
	}
	switch os.Args[1] {
	case "replay-gen":
		replayGen(os.Args[2], os.Args[3], os.Args[4])
	case "replay":
		var raw map[string]json.RawMessage
		obs.ReadReplay(os.Args[2], &raw)
		var kind string
		json.Unmarshal(raw["kind"], &kind)
		what := ""
		switch kind {
		case "lookup":
			var c LookupCase
			obs.ReadReplay(os.Args[2], &c)
			what, _ = checkLookup(c)
		case "meta":
			var c MetaCase
			obs.ReadReplay(os.Args[2], &c)
			what, _ = checkMeta(c)
		default:
			obs.Fatal("unknown case kind %q", kind)
		}
		if what != "" {
			fmt.Println("REPRODUCED:", what)
			os.Exit(1)
		}
		fmt.Println("not reproduced")
	case "check-cases":
		// concrete lookup cases (one JSON object per line) with the demand computed by TLC
		bad := 0
		seen := map[string]bool{}
		err := obs.ReadLines(os.Args[2], func(line []byte) error {
			var c LookupCase
			if err := json.Unmarshal(line, &c); err != nil {
				return err
			}
			if what, sig := checkLookup(c); what != "" {
				bad++
				k, _ := json.Marshal(sig)
				if !seen[string(k)] {
					seen[string(k)] = true
					obs.Emit(obs.Candidate{Sig: sig, What: what, Case: c})
				}
			}
			return nil
		})
		if err != nil {
			obs.Fatal("%v", err)
		}
		obs.Stat("disagreements", bad)
	case "record":
		n1, _ := strconv.Atoi(os.Args[3])
		n2, _ := strconv.Atoi(os.Args[4])
		n3, _ := strconv.Atoi(os.Args[5])
		record(os.Args[2], n1, n2, n3)
	default:
		obs.Fatal("unknown command")
	}
}

func replayGen(ufile, lfile, mfile string) {
	var universe []rev.Bytes
	err := obs.ReadLines(ufile, func(line []byte) error {
		var u struct {
			Universe []rev.Bytes `json:"universe"`
		}
		if err := json.Unmarshal(unquote(line), &u); err != nil {
			return err
		}
		universe = u.Universe
		return nil
	})
	if err != nil || len(universe) == 0 {
		obs.Fatal("universe: %v", err)
	}
	seen := map[string]bool{}
	emit := func(what string, sig map[string]any, c any) {
		k, _ := json.Marshal(sig)
		if !seen[string(k)] {
			seen[string(k)] = true
			obs.Emit(obs.Candidate{Sig: sig, What: what, Case: c})
		}
	}
	nl, nontriv, bad := 0, 0, 0
	distinct := map[string]bool{}
	if lfile != "-" {
		err = obs.ReadLines(lfile, func(line []byte) error {
			var g genLookup
			if err := json.Unmarshal(unquote(line), &g); err != nil {
				return err
			}
			c := LookupCase{Kind: "lookup", Q: universe[g.Q-1], Rev: g.Rev, T: g.T, CT: g.CT, QIssuer: "N1"}
			for _, e := range g.E {
				c.Entries = append(c.Entries, rev.Entry{S: universe[e[0]-1], T: e[1]})
			}
			// the statement matches on the serial only: every third case asks with a
			// certificate of another issuer
			if nl%3 == 2 {
				c.QIssuer = "N2"
			}
			nl++
			if len(c.Entries) >= 2 {
				nontriv++
			}
			distinct[string(line)] = true
			if what, sig := checkLookup(c); what != "" {
				bad++
				emit(what, sig, c)
			}
			return nil
		})
		if err != nil {
			obs.Fatal("lookup cases: %v", err)
		}
	}
	nm := 0
	if mfile != "-" {
		err = obs.ReadLines(mfile, func(line []byte) error {
			var c MetaCase
			if err := json.Unmarshal(unquote(line), &c); err != nil {
				return err
			}
			c.Kind = "meta"
			nm++
			if len(c.CRL.Exts) > 0 {
				nontriv++
			}
			if what, sig := checkMeta(c); what != "" {
				bad++
				emit(what, sig, c)
			}
			return nil
		})
		if err != nil {
			obs.Fatal("meta cases: %v", err)
		}
	}
	obs.Stat("lookup_cases", nl)
	obs.Stat("meta_cases", nm)
	obs.Stat("nontrivial", nontriv)
	obs.Stat("disagreements", bad)
}

// ---- random observations -------------------------------------------------------------------

func randSerial(rng *rand.Rand) rev.Bytes {
	var n *big.Int
	switch rng.Intn(6) {
	case 0:
		n = big.NewInt(int64(rng.Intn(300)))
	case 1:
		n = big.NewInt(-int64(rng.Intn(300)))
	default:
		l := 1 + rng.Intn(20)
		b := make([]byte, l)
		rng.Read(b)
		n = new(big.Int).SetBytes(b)
		if rng.Intn(4) == 0 {
			n.Neg(n)
		}
	}
	c := rev.ContentFromInt(n)
	if len(c) > 20 {
		c = rev.ContentFromInt(new(big.Int).Rsh(n, 8))
	}
	return c
}

func record(out string, ncrl, nent, nq int) {
	rng := rand.New(rand.NewSource(obs.Seed()))
	w := obs.NewWriter(out)
	times := []int{100, 200, 86400, 978393600}
	for i := 0; i < ncrl; i++ {
		n := nent/2 + rng.Intn(nent/2+1)
		var entries []rev.Entry
		for j := 0; j < n; j++ {
			var s rev.Bytes
			if j > 0 && rng.Intn(8) == 0 {
				s = entries[rng.Intn(j)].S // duplicate
			} else {
				s = randSerial(rng)
			}
			t := times[rng.Intn(len(times))]
			if rng.Intn(3) == 0 {
				t = rng.Intn(1 << 30)
			}
			entries = append(entries, rev.Entry{S: s, T: t})
		}
		cl := parseCRL(rev.CRL{Issuer: "N1", ThisUpdate: 86400, NextUpdate: 172800, Entries: entries})
		cache := buildCache(cl)
		type q struct {
			S   rev.Bytes `json:"s"`
			Iss string    `json:"iss"`
			Lin Res       `json:"lin"`
			Cac Res       `json:"cac"`
		}
		var qs []q
		for j := 0; j < nq; j++ {
			var s rev.Bytes
			switch r := rng.Intn(10); {
			case r < 5 && n > 0:
				s = entries[rng.Intn(n)].S
			case r < 7 && n > 0:
				// near miss: negated, incremented or truncated neighbour of a listed serial
				v := rev.IntFromContent(entries[rng.Intn(n)].S)
				switch rng.Intn(3) {
				case 0:
					v.Neg(v)
				case 1:
					v.Add(v, big.NewInt(1))
				default:
					v.And(v.Abs(v), new(big.Int).SetUint64(^uint64(0)))
				}
				s = rev.ContentFromInt(v)
			default:
				s = randSerial(rng)
			}
			iss := "N1"
			if rng.Intn(4) == 0 {
				iss = "N2"
			}
			lin, cac, _ := observe(cl, cache, queryCert(iss, s))
			qs = append(qs, q{s, iss, lin, cac})
		}
		type ent struct {
			S rev.Bytes `json:"s"`
			T int       `json:"t"`
		}
		var es []ent
		for _, e := range entries {
			es = append(es, ent{e.S, e.T})
		}
		if es == nil {
			es = []ent{}
		}
		w.Write(map[string]any{"entries": es, "queries": qs})
	}
	w.Close()
	obs.Stat("observations", ncrl*nq)
}
