// c29: conformance harness binding TLSHello.tla to zcrypto's fingerprinted ClientHello.
//
//	c29 replay-gen <cases.ndjson>   for every TLC-generated configuration: run a REAL tls.Client with the
//	                                ClientFingerprintConfiguration against a recording in-memory peer,
//	                                reassemble the first handshake message from the records on the wire,
//	                                compare it with the demanded bytes (fresh random = the bytes the client
//	                                drew from Config.Rand, timestamp = current Unix time) and read it back
//	                                through the real clientHelloMsg.unmarshal
//	c29 replay <replay.json>        one configuration (exit 1 if the recorded kind of disagreement reproduces)
package main

import (
	"bytes"
	"encoding/binary"
	"encoding/json"
	"fmt"
	"io"
	"net"
	"os"
	"regexp"
	"sort"
	"time"

	"github.com/zmap/zcrypto/tls"
	"verifharness/lib/obs"
	"verifharness/lib/wire"
)

type ExtCfg struct {
	Kind string  `json:"kind"`
	A    [][]int `json:"a"`
	B    []int   `json:"b"`
	Auto bool    `json:"auto"`
}

type Cfg struct {
	Ver        []int    `json:"ver"`
	Its        bool     `json:"its"`
	Random     []int    `json:"random"`
	Sid        []int    `json:"sid"`
	Suites     [][]int  `json:"suites"`
	Comp       []int    `json:"comp"`
	Exts       []ExtCfg `json:"exts"`
	ServerName []int    `json:"serverName"`
	Force      bool     `json:"force"`
	Cache      bool     `json:"cache"`
}

type Case struct {
	Cfg      Cfg         `json:"cfg"`
	Must     string      `json:"must"`
	Hello    []int       `json:"hello"`
	Readback bool        `json:"readback"`
	Expect   wire.Fields `json:"expect"`
	Kind     string      `json:"kind,omitempty"`
}

func bs(a []int) []byte { return wire.ToBytes(a) }

func u16s(a [][]int) []uint16 {
	res := make([]uint16, len(a))
	for i := range a {
		res[i] = uint16(wire.BEUint(bs(a[i])))
	}
	return res
}

func strs(a [][]int) []string {
	res := make([]string, len(a))
	for i := range a {
		res[i] = string(bs(a[i]))
	}
	return res
}

// concretise: abstract configuration -> real ClientFingerprintConfiguration and Config.
func concretise(c *Cfg, rnd io.Reader) (*tls.Config, error) {
	fp := &tls.ClientFingerprintConfiguration{
		HandshakeVersion:   uint16(wire.BEUint(bs(c.Ver))),
		InsertTimestamp:    c.Its,
		SessionID:          bs(c.Sid),
		CipherSuites:       u16s(c.Suites),
		CompressionMethods: bs(c.Comp),
	}
	if len(c.Random) > 0 {
		fp.ClientRandom = bs(c.Random)
	}
	for _, e := range c.Exts {
		var x tls.ClientExtension
		switch e.Kind {
		case "null":
			x = &tls.NullExtension{}
		case "sni":
			x = &tls.SNIExtension{Domains: strs(e.A), Autopopulate: e.Auto}
		case "alpn":
			x = &tls.ALPNExtension{Protocols: strs(e.A)}
		case "reneg":
			x = &tls.SecureRenegotiationExtension{}
		case "ems":
			x = &tls.ExtendedMasterSecretExtension{}
		case "status":
			x = &tls.StatusRequestExtension{}
		case "sct":
			x = &tls.SCTExtension{}
		case "curves":
			var cs []tls.CurveID
			for _, v := range u16s(e.A) {
				cs = append(cs, tls.CurveID(v))
			}
			x = &tls.SupportedCurvesExtension{Curves: cs}
		case "points":
			x = &tls.PointFormatExtension{Formats: bs(e.B)}
		case "ticket":
			x = &tls.SessionTicketExtension{Ticket: bs(e.B), Autopopulate: e.Auto}
		case "sigalgs":
			x = &tls.SignatureAlgorithmExtension{SignatureAndHashes: u16s(e.A)}
		default:
			return nil, fmt.Errorf("unknown extension kind %q", e.Kind)
		}
		fp.Extensions = append(fp.Extensions, x)
	}
	conf := &tls.Config{
		InsecureSkipVerify:             true,
		ServerName:                     string(bs(c.ServerName)),
		ForceSuites:                    c.Force,
		Rand:                           rnd,
		ClientFingerprintConfiguration: fp,
	}
	if c.Cache {
		conf.ClientSessionCache = tls.NewLRUClientSessionCache(4)
	}
	return conf, nil
}

// abstraction check (rule 2): re-derive the abstract configuration from the real objects.
func abstractBack(conf *tls.Config, c *Cfg) error {
	fp := conf.ClientFingerprintConfiguration
	if int(fp.HandshakeVersion) != int(wire.BEUint(bs(c.Ver))) || !bytes.Equal(fp.SessionID, bs(c.Sid)) ||
		len(fp.CipherSuites) != len(c.Suites) || !bytes.Equal(fp.CompressionMethods, bs(c.Comp)) ||
		len(fp.Extensions) != len(c.Exts) || fp.InsertTimestamp != c.Its || len(fp.ClientRandom) != len(c.Random) {
		return fmt.Errorf("concretised configuration does not abstract back to the case")
	}
	return nil
}

// seqReader hands out a deterministic byte stream and remembers what it handed out.
type seqReader struct {
	seed byte
	n    int
	out  []byte
}

func (r *seqReader) Read(p []byte) (int, error) {
	for i := range p {
		p[i] = byte((r.n*167 + int(r.seed)*31 + 13) % 251)
		r.n++
	}
	r.out = append(r.out, p...)
	return len(p), nil
}

type observation struct {
	sent     []byte // first handshake message reassembled from the wire (nil: nothing was sent)
	garbage  string // non-empty: what was on the wire was not a handshake record stream
	err      error  // what Handshake returned
	panicked string
	drawn    []byte
	t0, t1   int64
}

func runClient(c *Cfg, seed byte) (*observation, error) {
	rnd := &seqReader{seed: seed}
	conf, err := concretise(c, rnd)
	if err != nil {
		return nil, err
	}
	if err := abstractBack(conf, c); err != nil {
		return nil, err
	}
	cli, srv := net.Pipe()
	ob := &observation{}
	done := make(chan struct{})
	go func() { // the recording peer: reads handshake records until one whole message is there
		defer close(done)
		defer srv.Close()
		var hs []byte
		hdr := make([]byte, 5)
		for {
			if _, err := io.ReadFull(srv, hdr); err != nil {
				break
			}
			if hdr[0] != 22 {
				ob.garbage = fmt.Sprintf("record of type %d before the ClientHello was complete", hdr[0])
				return
			}
			n := int(hdr[3])<<8 | int(hdr[4])
			if n > 16384 {
				ob.garbage = fmt.Sprintf("handshake record of %d bytes", n)
				return
			}
			frag := make([]byte, n)
			if _, err := io.ReadFull(srv, frag); err != nil {
				ob.garbage = "truncated record"
				return
			}
			hs = append(hs, frag...)
			if len(hs) >= 4 {
				l := int(hs[1])<<16 | int(hs[2])<<8 | int(hs[3])
				if len(hs) >= 4+l {
					ob.sent = hs[:4+l]
					if len(hs) > 4+l {
						ob.garbage = "bytes after the first handshake message in the same flight"
					}
					return
				}
			}
		}
		if len(hs) > 0 {
			ob.garbage = fmt.Sprintf("incomplete handshake message (%d bytes)", len(hs))
		}
	}()
	conn := tls.Client(cli, conf)
	ob.t0 = time.Now().Unix()
	o := obs.Guard(60*time.Second, func() { ob.err = conn.Handshake() })
	ob.t1 = time.Now().Unix()
	cli.Close()
	if o.Timeout {
		return nil, fmt.Errorf("client handshake did not return")
	}
	ob.panicked = o.Panic
	select {
	case <-done:
	case <-time.After(60 * time.Second):
		return nil, fmt.Errorf("recorder did not finish")
	}
	ob.drawn = rnd.out
	return ob, nil
}

type finding struct{ kind, field, what string }

func check(c *Case, seed byte) ([]finding, *observation, error) {
	ob, err := runClient(&c.Cfg, seed)
	if err != nil {
		return nil, nil, err
	}
	var fs []finding
	if ob.panicked != "" {
		return []finding{{"panic", "", "the client panicked instead of sending the configured ClientHello: " + ob.panicked}}, ob, nil
	}
	if ob.garbage != "" {
		fs = append(fs, finding{"wire-garbage", "", "the first flight is not one ClientHello: " + ob.garbage})
	}
	if ob.sent == nil {
		if c.Must == "send" && ob.garbage == "" {
			fs = append(fs, finding{"refused", "", fmt.Sprintf("no ClientHello was sent for a configuration zcrypto implements (error: %v)", ob.err)})
		}
		return fs, ob, nil
	}
	if c.Must == "refuse" {
		fs = append(fs, finding{"sent-unrepresentable", "", fmt.Sprintf("a %d-byte ClientHello was sent although the configuration has no well-formed encoding", len(ob.sent))})
		return fs, ob, nil
	}
	// byte-for-byte comparison with the demanded hello
	want := c.Hello
	if len(want) != len(ob.sent) {
		fs = append(fs, finding{"bytes", "length", fmt.Sprintf("ClientHello on the wire has %d bytes, the configuration demands %d", len(ob.sent), len(want))})
	} else {
		fresh := 0
		var ts []byte
		mismatch := false
		for i, w := range want {
			switch {
			case w >= 0:
				if ob.sent[i] != byte(w) {
					fs = append(fs, finding{"bytes", region(i, c), fmt.Sprintf("ClientHello byte %d (%s) is %#02x on the wire, the configuration demands %#02x", i, region(i, c), ob.sent[i], w)})
					mismatch = true
				}
			case w == -1:
				if fresh >= len(ob.drawn) || ob.sent[i] != ob.drawn[fresh] {
					fs = append(fs, finding{"random", "fresh", fmt.Sprintf("random byte %d is not the byte the client drew from Config.Rand", i-6)})
					mismatch = true
				}
				fresh++
			case w == -2:
				ts = append(ts, ob.sent[i])
			}
			if mismatch {
				break
			}
		}
		if len(ts) == 4 {
			t := int64(binary.BigEndian.Uint32(ts))
			if t < ob.t0-2 || t > ob.t1+2 {
				fs = append(fs, finding{"random", "timestamp", fmt.Sprintf("InsertTimestamp: the first four random bytes are %x (= %d), the Unix time was %d", ts, t, ob.t0)})
			}
		}
	}
	// the real ClientHello parser reads the configured values back
	if c.Readback {
		m := tls.VerifNewMessage("clientHelloMsg")
		ok := false
		o := obs.Guard(60*time.Second, func() { ok = m.Unmarshal(append([]byte(nil), ob.sent...)) })
		if o.Panic != "" {
			fs = append(fs, finding{"readback-panic", "", "clientHelloMsg.unmarshal panicked on the hello from the wire: " + o.Panic})
		} else if !ok {
			fs = append(fs, finding{"readback-rejected", "", "clientHelloMsg.unmarshal rejects the hello from the wire"})
		} else {
			var names []string
			for f := range c.Expect {
				names = append(names, f)
			}
			sort.Strings(names)
			for _, f := range names {
				if f == "random" && len(c.Cfg.Random) != 32 {
					continue
				}
				got, okf := m.Get(f)
				if !okf {
					return nil, nil, fmt.Errorf("clientHelloMsg has no field %q", f)
				}
				wantv, err := wire.Concretise(got, c.Expect[f])
				if err != nil {
					return nil, nil, err
				}
				if wire.Canon(got) != wire.Canon(wantv) {
					fs = append(fs, finding{"readback", f, fmt.Sprintf("the ClientHello parser reads %s = %s, configured %s", f, clip(wire.Canon(got)), clip(wire.Canon(wantv)))})
					break
				}
			}
		}
	}
	return fs, ob, nil
}

func clip(s string) string {
	if len(s) > 60 {
		return s[:60] + "..."
	}
	return s
}

// region names the part of the hello an offset falls in (for the finding signature).
func region(i int, c *Case) string {
	sid := len(c.Cfg.Sid)
	switch {
	case i < 1:
		return "type"
	case i < 4:
		return "length"
	case i < 6:
		return "version"
	case i < 38:
		return "random"
	case i < 39+sid:
		return "session_id"
	case i < 39+sid+2+2*len(c.Cfg.Suites):
		return "cipher_suites"
	case i < 39+sid+2+2*len(c.Cfg.Suites)+1+len(c.Cfg.Comp):
		return "compression_methods"
	}
	return "extensions"
}

var algPair = regexp.MustCompile(`\((\d+), (\d+)\)`)

// sigOf: the signature names the failing clause, not the incidental rest of the configuration.
func sigOf(c *Case, f finding, ob *observation) map[string]any {
	sig := map[string]any{"kind": f.kind, "field": f.field}
	switch f.kind {
	case "refused":
		// the client's own reason, with the hash half of a (hash, signature) pair wildcarded
		reason := ""
		if ob != nil && ob.err != nil {
			reason = algPair.ReplaceAllString(ob.err.Error(), "(*, $2)")
		}
		sig["reason"] = reason
	case "panic":
		sig["cache"] = c.Cfg.Cache
		if ob != nil {
			sig["panic"] = ob.panicked
		}
	case "bytes", "readback", "readback-rejected", "sent-unrepresentable":
		kinds := map[string]bool{}
		for _, e := range c.Cfg.Exts {
			kinds[e.Kind] = true
		}
		var ks []string
		for k := range kinds {
			ks = append(ks, k)
		}
		sort.Strings(ks)
		if len(ks) <= 1 {
			sig["exts"] = fmt.Sprint(ks)
		}
	}
	return sig
}

func main() {
	if len(os.Args) < 3 {
		obs.Fatal("usage")
	}
	switch os.Args[1] {
	case "replay-gen":
		n, sent, refused, nontriv := 0, 0, 0, 0
		must := map[string]int{}
		extSeen := map[string]int{}
		seen := map[string]bool{}
		err := obs.ReadLines(os.Args[2], func(line []byte) error {
			var c Case
			if err := json.Unmarshal(line, &c); err != nil {
				return err
			}
			n++
			must[c.Must]++
			if len(c.Cfg.Exts) >= 2 {
				nontriv++
			}
			fs, ob, err := check(&c, byte(obs.Seed()+int64(n)))
			if err != nil {
				return fmt.Errorf("case %d: %v", n, err)
			}
			if ob.sent != nil {
				sent++
				for _, e := range c.Cfg.Exts {
					extSeen[e.Kind]++
				}
			} else {
				refused++
			}
			for _, f := range fs {
				sig := sigOf(&c, f, ob)
				k, _ := json.Marshal(sig)
				if !seen[string(k)] {
					seen[string(k)] = true
					cc := c
					cc.Kind = f.kind
					obs.Emit(obs.Candidate{Sig: sig, What: f.what, Case: cc})
				}
			}
			return nil
		})
		if err != nil {
			obs.Fatal("%v", err)
		}
		obs.Stat("cases", n)
		obs.Stat("sent", sent)
		obs.Stat("refused", refused)
		obs.Stat("nontrivial", nontriv)
		obs.Stat("must", must)
		obs.Stat("ext_kinds_sent", extSeen)
	case "replay":
		var c Case
		obs.ReadReplay(os.Args[2], &c)
		fs, _, err := check(&c, byte(obs.Seed()))
		if err != nil {
			obs.Fatal("%v", err)
		}
		for _, f := range fs {
			if f.kind == c.Kind {
				fmt.Println("reproduced:", f.what)
				os.Exit(1)
			}
		}
		fmt.Println("not reproduced")
	default:
		obs.Fatal("unknown command %q", os.Args[1])
	}
}
