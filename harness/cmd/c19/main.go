// c19: conformance harness binding DER.tla (C19, strict DER decoding is canonical) to the
// real decoders of encoding/asn1 and cryptobyte.
//
//	c19 replay-gen <cases.ndjson>      TLC-generated cases (DERGen.tla) with the demanded verdicts
//	c19 replay <replay.json>           one case on one target (exit 1 if the real code disagrees)
//	c19 record <out.ndjson> <n>        seeded random longer encodings -> observations for Trace_DER
//	c19 record-one <replay.json> <out> re-record the observation of one replay file
package main

import (
	"encoding/json"
	"fmt"
	"math/rand"
	"os"
	"reflect"
	"strconv"

	"verifharness/lib/der"
	"verifharness/lib/obs"
)

// Case is one record printed by DERGen.tla.
type Case struct {
	K     string   `json:"k"`
	B     []int    `json:"b"`
	Fill  int      `json:"fill"`
	N     int      `json:"n"`
	Why   string   `json:"why"`
	V     string   `json:"v"`  // single-class kinds (bool, time)
	Vs    []string `json:"vs"` // verdict per decoder class, order der.ClassSeq[kind]
	Sign  int      `json:"sign"`
	Mag   []int    `json:"mag"`
	Bv    bool     `json:"bv"`
	Arcs  []int64  `json:"arcs"`
	Bytes []int    `json:"bytes"`
	Bl    int      `json:"bl"`
	T     []int    `json:"t"`
	NoRe  bool     `json:"nore"` // the specification demands no re-encoding (UTCTime without seconds)
	Class int      `json:"class"`
	Cons  bool     `json:"cons"`
	Tag   int64    `json:"tag"`
	Clen  int      `json:"clen"`
}

type Replay struct {
	Case   Case   `json:"case"`
	Target string `json:"target"`
}

func (c *Case) want(t *der.Target) string {
	if len(c.Vs) == 0 {
		return c.V
	}
	i := der.ClassIndex(c.K, t.Cls)
	if i < 0 || i >= len(c.Vs) {
		obs.Fatal("case kind %s has no class %s", c.K, t.Cls)
	}
	return c.Vs[i]
}

// hasValue: TLC supplied the decoded value (it does not for arcs / tags >= 2^31).
func (c *Case) hasValue() bool {
	switch c.K {
	case "oid":
		return len(c.Arcs) > 0
	case "hdr":
		return c.Tag >= 0
	}
	return true
}

func eqInts(a, b []int) bool {
	if len(a) == 0 && len(b) == 0 {
		return true
	}
	return reflect.DeepEqual(a, b)
}

// valueEqual compares the projection of the real result with the specification's value.
func valueEqual(c *Case, v der.Value) bool {
	switch c.K {
	case "int":
		return c.Sign == v.Sign && eqInts(c.Mag, v.Mag)
	case "bool":
		return c.Bv == v.Bv
	case "oid":
		if len(c.Arcs) != len(v.Arcs) {
			return false
		}
		for i := range c.Arcs {
			if c.Arcs[i] != v.Arcs[i] {
				return false
			}
		}
		return true
	case "bits":
		return c.Bl == v.Bl && eqInts(c.Bytes, v.Bytes)
	case "time", "utc":
		return eqInts(c.T, v.T)
	case "hdr":
		return c.Class == v.Class && c.Cons == v.Cons && c.Tag == v.Tag && c.Clen == v.Clen
	}
	obs.Fatal("unknown kind %q", c.K)
	return false
}

// check runs target t on case c; returns "" or the kind of disagreement.
func check(c *Case, t *der.Target) (got string, what string) {
	in := der.Input(t, der.Bytes(c.B), c.Fill)
	o := t.Run(in)
	want := c.want(t)
	desc := func() string {
		h := fmt.Sprintf("% x", in)
		if len(h) > 120 {
			h = h[:120] + fmt.Sprintf("... (%d bytes)", len(in))
		}
		return fmt.Sprintf("%s on [%s]", t.Name, h)
	}
	switch {
	case o.Panic != "":
		return "panic", fmt.Sprintf("%s panicked: %s", desc(), o.Panic)
	case want == "r" && o.Acc:
		return "a", fmt.Sprintf("%s: accepted (value %+v, %d bytes consumed); the specification demands rejection: %s", desc(), o.Val, o.N, c.Why)
	case want == "a" && !o.Acc:
		return "r", fmt.Sprintf("%s: rejected; the specification demands acceptance (canonical encoding of a value in range)", desc())
	case !o.Acc:
		return "", ""
	}
	if o.N != c.N {
		return "consumed", fmt.Sprintf("%s: consumed %d bytes, the specification says %d", desc(), o.N, c.N)
	}
	if c.hasValue() && !valueEqual(c, o.Val) {
		return "value", fmt.Sprintf("%s: decoded %+v, the specification says %+v", desc(), o.Val, *c)
	}
	if c.NoRe || t.NoRe {
		return "", ""
	}
	if o.ReErr != "" {
		return "reencode", fmt.Sprintf("%s: accepted but re-encoding with the same library failed: %s", desc(), o.ReErr)
	}
	if string(o.Re) != string(in[:c.N]) {
		return "reencode", fmt.Sprintf("%s: accepted, but re-encoding the decoded value gives [% x], not the consumed bytes", desc(), o.Re)
	}
	return "", ""
}

func sig(c *Case, t *der.Target, got string) map[string]any {
	why := c.Why
	if why == "" && c.want(t) == "r" {
		why = "int-out-of-range"
	}
	return map[string]any{"kind": c.K, "target": t.Name, "want": c.want(t), "got": got, "why": why}
}

// nontrivial: within one edit of the accept / reject boundary = a rejected case whose
// reason is a canonicity rule (not mere truncation), or an accepted case.
func nontrivial(c *Case) bool {
	return c.Why != "truncated" && c.Why != "tag-mismatch"
}

func main() {
	if len(os.Args) < 3 {
		obs.Fatal("usage")
	}
	der.SetPermissive(false)
	switch os.Args[1] {
	case "replay-gen":
		n, evals, bad, nontriv := 0, 0, 0, 0
		perKind := map[string]int{}
		accepted := map[string]int{}
		seen := map[string]bool{}
		err := obs.ReadLines(os.Args[2], func(line []byte) error {
			var c Case
			if err := json.Unmarshal(line, &c); err != nil {
				return err
			}
			n++
			perKind[c.K]++
			if nontrivial(&c) {
				nontriv++
			}
			ts := der.Targets(c.K)
			if len(ts) == 0 {
				obs.Fatal("no targets for kind %q", c.K)
			}
			for i := range ts {
				t := &ts[i]
				evals++
				if c.want(t) == "a" {
					accepted[c.K]++
				}
				got, what := check(&c, t)
				if got == "" {
					continue
				}
				bad++
				s := sig(&c, t, got)
				k, _ := json.Marshal(s)
				if !seen[string(k)] {
					seen[string(k)] = true
					obs.Emit(obs.Candidate{Sig: s, What: what, Case: Replay{Case: c, Target: t.Name}})
				}
			}
			return nil
		})
		if err != nil {
			obs.Fatal("%v", err)
		}
		obs.Stat("cases", n)
		obs.Stat("evaluations", evals)
		obs.Stat("nontrivial", nontriv)
		obs.Stat("disagreements", bad)
		obs.Stat("per_kind", perKind)
		obs.Stat("must_accept_evals", accepted)
	case "replay":
		var r Replay
		obs.ReadReplay(os.Args[2], &r)
		t := der.TargetByName(r.Target)
		if t == nil {
			obs.Fatal("unknown target %q", r.Target)
		}
		if got, what := check(&r.Case, t); got != "" {
			fmt.Println("REPRODUCED:", what)
			os.Exit(1)
		}
		fmt.Println("not reproduced")
	case "record":
		n, _ := strconv.Atoi(os.Args[3])
		w := obs.NewWriter(os.Args[2])
		rng := rand.New(rand.NewSource(obs.Seed()))
		for i := 0; i < n; i++ {
			kind, in := randomInput(rng)
			ts := der.Targets(kind)
			for j := range ts {
				record(w, kind, in, &ts[j])
			}
		}
		w.Close()
		obs.Stat("observations", w.N)
	case "record-one":
		var r struct {
			K      string `json:"k"`
			B      []int  `json:"b"`
			Target string `json:"target"`
		}
		obs.ReadReplay(os.Args[2], &r)
		t := der.TargetByName(r.Target)
		if t == nil {
			obs.Fatal("unknown target %q", r.Target)
		}
		w := obs.NewWriter(os.Args[3])
		record(w, r.K, der.Bytes(r.B), t)
		w.Close()
	default:
		obs.Fatal("unknown command")
	}
}

// record logs what target t really did with input in (identifier octet patched for t).
func record(w *obs.Writer, kind string, raw []byte, t *der.Target) {
	in := der.Input(t, raw, 0)
	o := t.Run(in)
	v := o.Val
	rec := map[string]any{
		"k": kind, "b": der.Ints(in), "target": t.Name, "cls": t.Cls, "tagbyte": int(in[0]),
		"acc": o.Acc, "n": o.N, "panic": o.Panic != "",
		"sign": v.Sign, "mag": nz(v.Mag), "bv": v.Bv, "arcs": nz64(v.Arcs), "bytes": nz(v.Bytes), "bl": v.Bl,
		"t": nz(v.T), "class": v.Class, "cons": v.Cons, "tag": v.Tag, "clen": v.Clen,
		"re": der.Ints(o.Re), "reok": o.Acc && o.ReErr == "", "nore": t.NoRe,
	}
	w.Write(rec)
}

func nz(a []int) []int {
	if a == nil {
		return []int{}
	}
	return a
}
func nz64(a []int64) []int64 {
	if a == nil {
		return []int64{}
	}
	return a
}

// ---------------------------------------------------------------- random longer inputs
// Inputs are built near the canonical / non-canonical boundary: a canonical encoding of a
// random value, then (often) one mutation.  Nothing here decides acceptability.

func hdr(tag byte, n int) []byte {
	switch {
	case n < 128:
		return []byte{tag, byte(n)}
	case n < 256:
		return []byte{tag, 0x81, byte(n)}
	default:
		return []byte{tag, 0x82, byte(n >> 8), byte(n)}
	}
}

var boundary = []byte{0x00, 0x01, 0x27, 0x28, 0x4f, 0x50, 0x7f, 0x80, 0x81, 0xbf, 0xc0, 0xfe, 0xff, 0x1f}

func rbyte(rng *rand.Rand) byte {
	if rng.Intn(2) == 0 {
		return boundary[rng.Intn(len(boundary))]
	}
	return byte(rng.Intn(256))
}

func randomInput(rng *rand.Rand) (string, []byte) {
	var kind string
	var tag byte
	var content []byte
	switch rng.Intn(7) {
	case 6:
		kind, tag = "utc", 0x17
		yy := []int{0, 1, 49, 50, 51, 68, 69, 99, rng.Intn(100)}[rng.Intn(9)]
		str := fmt.Sprintf("%02d%02d%02d%02d%02d", yy, 1+rng.Intn(12), 1+rng.Intn(31), rng.Intn(25), rng.Intn(61))
		if rng.Intn(3) != 0 {
			str += fmt.Sprintf("%02d", rng.Intn(61))
		}
		switch rng.Intn(4) {
		case 0, 1:
			str += "Z"
		case 2:
			str += fmt.Sprintf("%c%02d%02d", "+-"[rng.Intn(2)], rng.Intn(26), rng.Intn(62))
		default:
			str += []string{"", "z", "+0000", "-0000", ".5Z", "+01"}[rng.Intn(6)]
		}
		content = []byte(str)
		if rng.Intn(6) == 0 {
			content[rng.Intn(len(content))] = rbyte(rng)
		}
	case 0:
		kind, tag = "int", 2
		n := 1 + rng.Intn(12)
		if rng.Intn(8) == 0 {
			n = 120 + rng.Intn(20) // around the long-form length boundary
		}
		content = make([]byte, n)
		for i := range content {
			content[i] = rbyte(rng)
		}
		if rng.Intn(3) == 0 {
			content[0] = []byte{0x00, 0xff, 0x7f, 0x80}[rng.Intn(4)]
		}
	case 1:
		kind, tag = "oid", 6
		n := 1 + rng.Intn(14)
		content = make([]byte, n)
		for i := range content {
			content[i] = rbyte(rng)
		}
		if rng.Intn(2) == 0 {
			content[n-1] &= 0x7f // terminate the last sub-identifier
		}
	case 2:
		kind, tag = "bits", 3
		n := 1 + rng.Intn(10)
		content = make([]byte, n)
		for i := range content {
			content[i] = rbyte(rng)
		}
		content[0] = byte(rng.Intn(10))
		if n > 1 && rng.Intn(2) == 0 && content[0] < 8 {
			content[n-1] &^= byte(1<<content[0] - 1)
		}
	case 3:
		kind, tag = "bool", 1
		content = []byte{rbyte(rng)}
		if rng.Intn(6) == 0 {
			content = append(content, rbyte(rng))
		}
	case 4:
		kind, tag = "time", 0x18
		y, mo, d := rng.Intn(10000), 1+rng.Intn(12), 1+rng.Intn(31)
		h, mi, s := rng.Intn(25), rng.Intn(61), rng.Intn(61)
		str := fmt.Sprintf("%04d%02d%02d%02d%02d%02d", y, mo, d, h, mi, s)
		switch rng.Intn(4) {
		case 0, 1:
			str += "Z"
		case 2:
			str += fmt.Sprintf("%c%02d%02d", "+-"[rng.Intn(2)], rng.Intn(26), rng.Intn(62))
		default:
			str += []string{"", "z", "+0000", "-0000", ".5Z", "+01"}[rng.Intn(6)]
		}
		content = []byte(str)
		if rng.Intn(5) == 0 {
			content[rng.Intn(len(content))] = rbyte(rng)
		}
	default:
		kind = "hdr"
		// identifier: low or high-tag-number form
		var id []byte
		first := rbyte(rng)
		if rng.Intn(3) == 0 {
			first |= 0x1f
		}
		id = append(id, first)
		if first&0x1f == 0x1f {
			k := 1 + rng.Intn(5)
			for i := 0; i < k; i++ {
				b := rbyte(rng)
				if i < k-1 {
					b |= 0x80
				} else if rng.Intn(8) != 0 {
					b &= 0x7f
				}
				id = append(id, b)
			}
		}
		n := rng.Intn(300)
		var l []byte
		switch rng.Intn(6) {
		case 0: // possibly non-minimal long form
			l = []byte{0x82, byte(n >> 8), byte(n)}
		case 1:
			l = []byte{0x81, byte(n)}
		case 2:
			l = []byte{0x83, 0, byte(n >> 8), byte(n)}
		default:
			l = hdr(0, n)[1:]
		}
		body := make([]byte, n)
		if rng.Intn(6) == 0 && n > 0 {
			body = body[:n-1] // truncated
		}
		in := append(append(id, l...), body...)
		if rng.Intn(4) == 0 {
			in = append(in, 5, 0)
		}
		return kind, in
	}
	in := append(hdr(tag, len(content)), content...)
	switch rng.Intn(12) {
	case 0: // non-minimal length form
		in = append([]byte{tag, 0x81, byte(len(content))}, content...)
	case 1: // truncated
		in = in[:len(in)-1]
	case 2, 3: // trailing data
		in = append(in, 5, 0)
	}
	return kind, in
}
