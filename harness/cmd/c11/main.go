// c11: conformance harness binding Walk.tla to Graph.WalkChains / WalkChainsAsync.
//
//	c11 replay-gen <catalog.ndjson> <walk_cases.ndjson> <obs_out.ndjson>
//	      TLC-generated cases (certificates to insert, roots, start certificate) are built into
//	      real graphs; WalkChains and WalkChainsAsync (channel sizes 1,2,3,default x eager/lazy
//	      consumer) are run; each distinct observation is written once.
//	c11 record <obs_out.ndjson> <pkis> <mincerts> <maxcerts>     seeded random PKIs
//	c11 record-one <replay.json> <obs_out.ndjson>               re-run one case
//
// Before every case the case is written to <obs_out>.current so that a crash of the process
// (a panic in the walk goroutine cannot be recovered) can be attributed to its case.
// The observations are judged by TLC (Trace_Walk.tla); this program never decides.
package main

import (
	"encoding/json"
	"fmt"
	"math/rand"
	"os"
	"runtime"
	"sort"
	"strconv"
	"sync"

	"verifharness/lib/graphobs"
	"verifharness/lib/obs"
)

// RCase is a self-contained, replayable walk case.
type RCase struct {
	Certs   []graphobs.AbsCert `json:"certs"`
	Ops     []graphobs.Op      `json:"ops"`
	Start   graphobs.AbsCert   `json:"start"`
	InGraph bool               `json:"ingraph"`
	Modes   []string           `json:"modes"`
	Pred    []string           `json:"pred"`
}

type Rec struct {
	Obs  graphobs.WalkObs `json:"obs"`
	Case RCase            `json:"case"`
}

var allModes = []string{"sync", "async:1:eager", "async:1:lazy", "async:2:eager", "async:2:lazy",
	"async:3:eager", "async:3:lazy", "async:0:eager", "async:0:lazy"}

func workers() int {
	if n, err := strconv.Atoi(os.Getenv("VERIF_WORKERS")); err == nil && n > 0 {
		return n
	}
	return runtime.NumCPU()
}

func loadCatalog(path string) []graphobs.AbsCert {
	var cat []graphobs.AbsCert
	if err := obs.ReadLines(path, func(line []byte) error {
		var c graphobs.AbsCert
		if err := json.Unmarshal(line, &c); err != nil {
			return err
		}
		if c.DNS == nil {
			c.DNS = []string{}
		}
		cat = append(cat, c)
		return nil
	}); err != nil {
		obs.Fatal("catalog: %v", err)
	}
	return cat
}

// runCase builds the graph and performs every requested walk; f gets one observation per mode.
func runCase(p *graphobs.Pool, rc RCase, f func(mode string, o graphobs.WalkObs)) {
	byID := map[string]graphobs.AbsCert{}
	for _, c := range rc.Certs {
		byID[c.ID] = c
	}
	b := graphobs.NewBuilder(p)
	for _, op := range rc.Ops {
		c, ok := byID[op.C]
		if !ok {
			obs.Fatal("case names unknown certificate %q", op.C)
		}
		if pan := b.Apply(c, op.Root); pan != "" {
			obs.Fatal("graph construction panicked (a C10 matter): %s", pan)
		}
	}
	edges, nodes := p.WalkGraph(b.G)
	inGraph := false
	for _, e := range edges {
		if e.ID == rc.Start.ID {
			inGraph = true
		}
	}
	if inGraph != rc.InGraph {
		obs.Fatal("case says ingraph=%v but the graph says %v", rc.InGraph, inGraph)
	}
	start := p.Get(rc.Start)
	for _, mode := range rc.Modes {
		if graphobs.Timeouts.Load() >= 3 {
			break // see graphobs.Timeouts
		}
		o := graphobs.WalkObs{Edges: edges, Nodes: nodes, Start: p.StartOf(rc.Start, inGraph)}
		if mode == "sync" {
			o.Chains, o.Closed, o.Panic = p.SyncWalk(b.G, start.Cert)
		} else {
			var k int
			var pace string
			if _, err := fmt.Sscanf(mode, "async:%d:%s", &k, &pace); err != nil {
				obs.Fatal("bad mode %q", mode)
			}
			o.Chains, o.Closed, o.Panic = p.AsyncWalk(b.G, start.Cert, k, pace == "lazy")
		}
		f(mode, o)
	}
}

type collector struct {
	mu     sync.Mutex
	byKey  map[string]*Rec
	order  []string
	walks  int
	chains int
}

func (c *collector) add(rc RCase, mode string, o graphobs.WalkObs) {
	k := graphobs.Key(o)
	c.mu.Lock()
	defer c.mu.Unlock()
	c.walks++
	c.chains += len(o.Chains)
	if r, ok := c.byKey[k]; ok {
		// same observation: remember the mode only if it is the same case
		if fmt.Sprint(r.Case.Ops) == fmt.Sprint(rc.Ops) && r.Case.Start.ID == rc.Start.ID {
			r.Case.Modes = append(r.Case.Modes, mode)
		}
		return
	}
	rc.Modes = []string{mode}
	c.byKey[k] = &Rec{Obs: o, Case: rc}
	c.order = append(c.order, k)
}

func (c *collector) write(path string) int {
	sort.Strings(c.order)
	w := obs.NewWriter(path)
	for _, k := range c.order {
		w.Write(c.byKey[k])
	}
	w.Close()
	return w.N
}

var curMu sync.Mutex

func markCurrent(path string, slot int, rc RCase) {
	b, _ := json.Marshal(rc)
	curMu.Lock()
	os.WriteFile(fmt.Sprintf("%s.current.%d", path, slot), b, 0o644)
	curMu.Unlock()
}

func main() {
	if len(os.Args) < 3 {
		obs.Fatal("usage")
	}
	switch os.Args[1] {
	case "replay-gen":
		cat := loadCatalog(os.Args[2])
		type tcase struct {
			Add   []int    `json:"add"`
			Roots []int    `json:"roots"`
			Start int      `json:"start"`
			Pred  []string `json:"pred"`
		}
		var cases []tcase
		if err := obs.ReadLines(os.Args[3], func(line []byte) error {
			var c tcase
			if err := json.Unmarshal(line, &c); err != nil {
				return err
			}
			cases = append(cases, c)
			return nil
		}); err != nil {
			obs.Fatal("cases: %v", err)
		}
		out := os.Args[4]
		col := &collector{byKey: map[string]*Rec{}}
		var wg sync.WaitGroup
		ch := make(chan int, 256)
		for wk := 0; wk < workers(); wk++ {
			wg.Add(1)
			go func(slot int) {
				defer wg.Done()
				p := graphobs.NewPool()
				for i := range ch {
					tc := cases[i]
					rng := rand.New(rand.NewSource(obs.Seed()*1000003 + int64(i)))
					rc := RCase{Modes: allModes, Pred: tc.Pred}
					if rc.Pred == nil {
						rc.Pred = []string{}
					}
					isRoot := map[int]bool{}
					for _, r := range tc.Roots {
						isRoot[r] = true
					}
					for _, j := range rng.Perm(len(tc.Add)) {
						idx := tc.Add[j]
						c := cat[idx-1]
						rc.Certs = append(rc.Certs, c)
						rc.Ops = append(rc.Ops, graphobs.Op{C: c.ID, Root: isRoot[idx]})
						if idx == tc.Start {
							rc.InGraph = true
						}
					}
					rc.Start = cat[tc.Start-1]
					markCurrent(out, slot, rc)
					runCase(p, rc, func(mode string, o graphobs.WalkObs) { col.add(rc, mode, o) })
				}
			}(wk)
		}
		for i := range cases {
			ch <- i
		}
		close(ch)
		wg.Wait()
		n := col.write(out)
		obs.Stat("cases", len(cases))
		obs.Stat("timeouts", int(graphobs.Timeouts.Load()))
		obs.Stat("walks", col.walks)
		obs.Stat("chains", col.chains)
		obs.Stat("distinct_observations", n)
	case "record":
		n, _ := strconv.Atoi(os.Args[3])
		lo, _ := strconv.Atoi(os.Args[4])
		hi, _ := strconv.Atoi(os.Args[5])
		out := os.Args[2]
		rng := rand.New(rand.NewSource(obs.Seed()))
		col := &collector{byKey: map[string]*Rec{}}
		p := graphobs.NewPool()
		ncases := 0
		for t := 0; t < n; t++ {
			certs := graphobs.RandomPKI(rng, fmt.Sprintf("w%d", t), lo+rng.Intn(hi-lo+1))
			var in []graphobs.AbsCert
			for _, c := range certs {
				if rng.Intn(10) < 8 {
					in = append(in, c)
				}
			}
			var ops []graphobs.Op
			for _, j := range rng.Perm(len(in)) {
				c := in[j]
				root := rng.Intn(25) == 0
				if c.Subj == c.Iss && c.Key == c.SKey {
					root = rng.Intn(10) < 7
				}
				ops = append(ops, graphobs.Op{C: c.ID, Root: root})
			}
			inSet := map[string]bool{}
			for _, c := range in {
				inSet[c.ID] = true
			}
			for s := 0; s < 8; s++ {
				st := certs[rng.Intn(len(certs))]
				modes := []string{"sync", allModes[1+rng.Intn(len(allModes)-1)]}
				rc := RCase{Certs: in, Ops: ops, Start: st, InGraph: inSet[st.ID], Modes: modes, Pred: []string{}}
				markCurrent(out, 0, rc)
				runCase(p, rc, func(mode string, o graphobs.WalkObs) { col.add(rc, mode, o) })
				ncases++
			}
		}
		nobs := col.write(out)
		obs.Stat("cases", ncases)
		obs.Stat("walks", col.walks)
		obs.Stat("chains", col.chains)
		obs.Stat("distinct_observations", nobs)
	case "record-one":
		var rc RCase
		obs.ReadReplay(os.Args[2], &rc)
		if len(rc.Modes) == 0 {
			rc.Modes = allModes
		}
		w := obs.NewWriter(os.Args[3])
		p := graphobs.NewPool()
		runCase(p, rc, func(mode string, o graphobs.WalkObs) {
			one := rc
			one.Modes = []string{mode}
			w.Write(Rec{Obs: o, Case: one})
		})
		w.Close()
	default:
		obs.Fatal("unknown command %q", os.Args[1])
	}
}
