// c21: conformance harness binding CryptoByte.tla (C21, cryptobyte builders and readers
// are exact inverses) to cryptobyte.Builder / cryptobyte.String.
//
//	c21 replay-gen <programs.ndjson>    TLC-generated programs (CryptoByteGen.tla) with demanded bytes / read results
//	c21 replay <replay.json>            one program (exit 1 if the real code disagrees)
//	c21 record <out.ndjson> <n>         seeded random long programs on the real code -> observations for Trace_CryptoByte
//	c21 record-one <replay.json> <out>  re-record one program
package main

import (
	"encoding/json"
	"fmt"
	"math/big"
	"math/rand"
	"os"
	"sort"
	"strconv"
	"strings"
	"time"

	"github.com/zmap/zcrypto/cryptobyte"
	cbasn1 "github.com/zmap/zcrypto/cryptobyte/asn1"
	"github.com/zmap/zcrypto/encoding/asn1"
	"verifharness/lib/obs"
)

// WOp / ROp / RObs mirror the tuples printed by CryptoByteGen.tla (TW, TR, TO).
type WOp struct {
	Op  string
	W   int
	Tag int
	V   []int64
	S   int
}
type ROp struct {
	Op  string
	W   int
	Tag int
	Cls string
	V   []int64
	S   int
}
type RObs struct {
	Ok    bool
	S     int
	V     []int64
	Big   *Blob // set instead of V when the specification printed the value compactly
	P     int
	Rest  int
	Depth int
}

// Blob: a long octet string as CryptoByteGen.tla prints it:
// ["big", length, first 16, last 16, middle octet (-1 = not uniform)].
type Blob struct {
	Len        int
	Head, Tail []int64
	Mid        int
}

// blobOf projects real octets the same way.
func blobOf(b []int64) Blob {
	n := len(b)
	x := Blob{Len: n, Head: b[:16], Tail: b[n-16:], Mid: int(b[16])}
	for _, v := range b[16 : n-16] {
		if v != b[16] {
			x.Mid = -1
			break
		}
	}
	return x
}

// parseOctets: plain list of octets or the compact form.
func parseOctets(raw json.RawMessage) ([]int64, *Blob, error) {
	var parts []json.RawMessage
	if err := json.Unmarshal(raw, &parts); err != nil {
		return nil, nil, err
	}
	if len(parts) == 5 && len(parts[0]) > 0 && parts[0][0] == '"' {
		var b Blob
		if err := tuple(raw, new(string), &b.Len, &b.Head, &b.Tail, &b.Mid); err != nil {
			return nil, nil, err
		}
		return nil, &b, nil
	}
	var v []int64
	err := json.Unmarshal(raw, &v)
	return v, nil, err
}

// sameOctets: real octets against the specification's (plain or compact) value.
func sameOctets(real []int64, want []int64, big *Blob) bool {
	if big == nil {
		return eq(real, want)
	}
	if len(real) <= 300 {
		return false
	}
	r := blobOf(real)
	return r.Len == big.Len && eq(r.Head, big.Head) && eq(r.Tail, big.Tail) && r.Mid == big.Mid
}

func tuple(b []byte, fields ...any) error {
	var raw []json.RawMessage
	if err := json.Unmarshal(b, &raw); err != nil {
		return err
	}
	if len(raw) != len(fields) {
		return fmt.Errorf("tuple of %d fields, want %d: %s", len(raw), len(fields), b)
	}
	for i, f := range fields {
		if err := json.Unmarshal(raw[i], f); err != nil {
			return err
		}
	}
	return nil
}
func (o *WOp) UnmarshalJSON(b []byte) error { return tuple(b, &o.Op, &o.W, &o.Tag, &o.V, &o.S) }
func (o *ROp) UnmarshalJSON(b []byte) error { return tuple(b, &o.Op, &o.W, &o.Tag, &o.Cls, &o.V, &o.S) }
func (o *RObs) UnmarshalJSON(b []byte) error {
	var v json.RawMessage
	if err := tuple(b, &o.Ok, &o.S, &v, &o.P, &o.Rest, &o.Depth); err != nil {
		return err
	}
	var err error
	o.V, o.Big, err = parseOctets(v)
	return err
}
func nz(v []int64) []int64 {
	if v == nil {
		return []int64{}
	}
	return v
}
func (o WOp) MarshalJSON() ([]byte, error) {
	return json.Marshal([]any{o.Op, o.W, o.Tag, nz(o.V), o.S})
}
func (o ROp) MarshalJSON() ([]byte, error) {
	return json.Marshal([]any{o.Op, o.W, o.Tag, o.Cls, nz(o.V), o.S})
}
func (o RObs) MarshalJSON() ([]byte, error) {
	if o.Big != nil {
		return json.Marshal([]any{o.Ok, o.S, []any{"big", o.Big.Len, nz(o.Big.Head), nz(o.Big.Tail), o.Big.Mid}, o.P, o.Rest, o.Depth})
	}
	return json.Marshal([]any{o.Ok, o.S, nz(o.V), o.P, o.Rest, o.Depth})
}

type Program struct {
	W     []WOp           `json:"w"`
	Err   bool            `json:"err"`
	Bytes json.RawMessage `json:"bytes"`
	R1    []ROp           `json:"r1"`
	O1    []RObs          `json:"o1"`
	R2    []ROp           `json:"r2"`
	O2    []RObs          `json:"o2"`
}

func toBytes(v []int64) []byte {
	b := make([]byte, len(v))
	for i, x := range v {
		b[i] = byte(x)
	}
	return b
}
func toInts(b []byte) []int64 {
	r := make([]int64, len(b))
	for i, x := range b {
		r[i] = int64(x)
	}
	return r
}
func eq(a, b []int64) bool {
	if len(a) != len(b) {
		return false
	}
	for i := range a {
		if a[i] != b[i] {
			return false
		}
	}
	return true
}

// ---------------------------------------------------------------- concretisation

func bigOf(s int, mag []int64) *big.Int {
	n := new(big.Int).SetBytes(toBytes(mag))
	if s < 0 {
		n.Neg(n)
	}
	// abstraction check (rule 2): the real value projects back to the abstract one
	if n.Sign() != s || !eq(toInts(n.Bytes()), mag) {
		obs.Fatal("concretisation of integer (%d,%v) gives %v", s, mag, n)
	}
	return n
}

func timeOf(t []int64) time.Time {
	if len(t) != 7 {
		obs.Fatal("bad time %v", t)
	}
	loc := time.UTC
	if t[6] != 0 {
		loc = time.FixedZone("", int(t[6]))
	}
	x := time.Date(int(t[0]), time.Month(t[1]), int(t[2]), int(t[3]), int(t[4]), int(t[5]), 0, loc)
	if !eq(timeVal(x), t) {
		obs.Fatal("concretisation of time %v gives %v", t, x)
	}
	return x
}

func timeVal(t time.Time) []int64 {
	y, mo, d := t.Date()
	h, mi, s := t.Clock()
	_, off := t.Zone()
	return []int64{int64(y), int64(mo), int64(d), int64(h), int64(mi), int64(s), int64(off)}
}

func uintOf(v []int64) uint32 {
	var x uint32
	for _, b := range v {
		x = x<<8 | uint32(b)
	}
	return x
}

// build executes ops[i:] on b until the matching "close"; returns the index after it.
func build(b *cryptobyte.Builder, ops []WOp, i int) int {
	for i < len(ops) {
		op := ops[i]
		i++
		switch op.Op {
		case "close":
			return i
		case "u":
			if len(op.V) != op.W {
				obs.Fatal("u: width %d value %v", op.W, op.V)
			}
			switch op.W {
			case 1:
				b.AddUint8(uint8(uintOf(op.V)))
			case 2:
				b.AddUint16(uint16(uintOf(op.V)))
			case 3:
				b.AddUint24(uintOf(op.V))
			case 4:
				b.AddUint32(uintOf(op.V))
			}
		case "bytes":
			b.AddBytes(toBytes(op.V))
		case "fill":
			x := make([]byte, op.W)
			for j := range x {
				x[j] = byte(op.Tag)
			}
			b.AddBytes(x)
		case "open":
			f := func(c *cryptobyte.Builder) { i = build(c, ops, i) }
			switch op.W {
			case 1:
				b.AddUint8LengthPrefixed(f)
			case 2:
				b.AddUint16LengthPrefixed(f)
			case 3:
				b.AddUint24LengthPrefixed(f)
			case 4:
				b.AddUint32LengthPrefixed(f)
			}
		case "asn1":
			b.AddASN1(cbasn1.Tag(op.Tag), func(c *cryptobyte.Builder) { i = build(c, ops, i) })
		case "int64":
			b.AddASN1Int64(bigOf(op.S, op.V).Int64())
		case "uint64":
			b.AddASN1Uint64(bigOf(op.S, op.V).Uint64())
		case "bigint":
			b.AddASN1BigInt(bigOf(op.S, op.V))
		case "enum":
			b.AddASN1Enum(bigOf(op.S, op.V).Int64())
		case "int64tag":
			b.AddASN1Int64WithTag(bigOf(op.S, op.V).Int64(), cbasn1.Tag(op.Tag))
		case "bool":
			b.AddASN1Boolean(op.S == 1)
		case "oid":
			o := make(asn1.ObjectIdentifier, len(op.V))
			for j, a := range op.V {
				o[j] = int(a)
			}
			b.AddASN1ObjectIdentifier(o)
		case "octet":
			b.AddASN1OctetString(toBytes(op.V))
		case "bits":
			b.AddASN1BitString(toBytes(op.V))
		case "gtime":
			b.AddASN1GeneralizedTime(timeOf(op.V))
		case "null":
			b.AddASN1NULL()
		default:
			obs.Fatal("unknown write op %q", op.Op)
		}
	}
	return i
}

func runBuild(ops []WOp) (out []byte, failed bool, panicked string) {
	defer func() {
		if r := recover(); r != nil {
			panicked = fmt.Sprintf("%v", r)
		}
	}()
	var b cryptobyte.Builder
	build(&b, ops, 0)
	o, err := b.Bytes()
	return o, err != nil, ""
}

// ---------------------------------------------------------------- reading

func bigObs(n *big.Int) (int, []int64) { return n.Sign(), toInts(n.Bytes()) }

// readInt reads an INTEGER-like element of class cls with identifier tag.
func readInt(s *cryptobyte.String, tag int, cls string) (bool, int, []int64) {
	switch {
	case tag == 10:
		var x int
		if !s.ReadASN1Enum(&x) {
			return false, 0, nil
		}
		sg, m := bigObs(big.NewInt(int64(x)))
		return true, sg, m
	case tag != 2:
		var x int64
		if !s.ReadASN1Int64WithTag(&x, cbasn1.Tag(tag)) {
			return false, 0, nil
		}
		sg, m := bigObs(big.NewInt(x))
		return true, sg, m
	case cls == "U64":
		var x uint64
		if !s.ReadASN1Integer(&x) {
			return false, 0, nil
		}
		sg, m := bigObs(new(big.Int).SetUint64(x))
		return true, sg, m
	case cls == "BIG":
		x := new(big.Int)
		if !s.ReadASN1Integer(x) {
			return false, 0, nil
		}
		sg, m := bigObs(x)
		return true, sg, m
	default:
		var x int64
		if !s.ReadASN1Integer(&x) {
			return false, 0, nil
		}
		sg, m := bigObs(big.NewInt(x))
		return true, sg, m
	}
}

func b2i(b bool) int {
	if b {
		return 1
	}
	return 0
}

// rstep executes one read op on the string stack; the observation is projected exactly as
// RStep of CryptoByte.tla defines it (ok, s, v, p, rest, depth); nothing is judged here.
func rstep(st *[]cryptobyte.String, op ROp) (o RObs) {
	top := &(*st)[len(*st)-1]
	fail := RObs{V: []int64{}}
	done := func(ok bool, s int, v []int64, p int) RObs {
		if !ok {
			return fail
		}
		t := (*st)[len(*st)-1]
		return RObs{Ok: true, S: s, V: nz(v), P: p, Rest: len(t), Depth: len(*st)}
	}
	switch op.Op {
	case "u":
		switch op.W {
		case 1:
			var x uint8
			ok := top.ReadUint8(&x)
			return done(ok, 0, []int64{int64(x)}, 0)
		case 2:
			var x uint16
			ok := top.ReadUint16(&x)
			return done(ok, 0, []int64{int64(x >> 8), int64(x & 0xff)}, 0)
		case 3:
			var x uint32
			ok := top.ReadUint24(&x)
			return done(ok, 0, []int64{int64(x >> 16 & 0xff), int64(x >> 8 & 0xff), int64(x & 0xff)}, 0)
		case 4:
			var x uint32
			ok := top.ReadUint32(&x)
			return done(ok, 0, []int64{int64(x >> 24), int64(x >> 16 & 0xff), int64(x >> 8 & 0xff), int64(x & 0xff)}, 0)
		}
		obs.Fatal("u width %d", op.W)
	case "rbytes":
		var x []byte
		if op.W == 0 {
			// String.ReadBytes(&x, 0) on a nil String reports failure; reading nothing is a no-op
			return done(true, 0, nil, 0)
		}
		ok := top.ReadBytes(&x, op.W)
		return done(ok, 0, toInts(x), 0)
	case "ropen":
		var c cryptobyte.String
		var ok bool
		switch op.W {
		case 1:
			ok = top.ReadUint8LengthPrefixed(&c)
		case 2:
			ok = top.ReadUint16LengthPrefixed(&c)
		case 3:
			ok = top.ReadUint24LengthPrefixed(&c)
		case 4: // no ReadUint32LengthPrefixed exists: ReadUint32 + ReadBytes
			var n uint32
			ok = top.ReadUint32(&n)
			if ok && n > 0 {
				ok = top.ReadBytes((*[]byte)(&c), int(n))
			}
		}
		if !ok {
			return fail
		}
		*st = append(*st, c)
		return done(true, 0, nil, 0)
	case "rasn1":
		var c cryptobyte.String
		if !top.ReadASN1(&c, cbasn1.Tag(op.Tag)) {
			return fail
		}
		*st = append(*st, c)
		return done(true, 0, nil, 0)
	case "rclose":
		e := top.Empty()
		*st = (*st)[:len(*st)-1]
		return done(true, b2i(e), nil, 0)
	case "rint":
		ok, s, v := readInt(top, op.Tag, op.Cls)
		return done(ok, s, v, 0)
	case "rbool":
		var x bool
		ok := top.ReadASN1Boolean(&x)
		return done(ok, b2i(x), nil, 0)
	case "roid":
		var x asn1.ObjectIdentifier
		ok := top.ReadASN1ObjectIdentifier(&x)
		v := make([]int64, len(x))
		for i, a := range x {
			v[i] = int64(a)
		}
		return done(ok, 0, v, 0)
	case "roctet":
		var x []byte
		ok := top.ReadASN1Bytes(&x, cbasn1.OCTET_STRING)
		return done(ok, 0, toInts(x), 0)
	case "rbits":
		var x asn1.BitString
		ok := top.ReadASN1BitString(&x)
		return done(ok, x.BitLength, toInts(x.Bytes), 0)
	case "rbitsbytes":
		var x []byte
		ok := top.ReadASN1BitStringAsBytes(&x)
		return done(ok, 0, toInts(x), 0)
	case "rgtime":
		var x time.Time
		ok := top.ReadASN1GeneralizedTime(&x)
		if !ok {
			return fail
		}
		return done(true, 0, timeVal(x), 0)
	case "rnull":
		var c cryptobyte.String
		ok := top.ReadASN1(&c, cbasn1.NULL)
		return done(ok, b2i(c.Empty()), nil, 0)
	case "peek":
		return done(true, 0, nil, b2i(top.PeekASN1Tag(cbasn1.Tag(op.Tag))))
	case "ropt":
		var c cryptobyte.String
		var present bool
		ok := top.ReadOptionalASN1(&c, &present, cbasn1.Tag(op.Tag))
		return done(ok, 0, toInts(c), b2i(present))
	case "skipopt":
		before := len(*top)
		ok := top.SkipOptionalASN1(cbasn1.Tag(op.Tag))
		return done(ok, 0, nil, b2i(len(*top) != before))
	case "roptint":
		def := bigOf(op.S, op.V)
		present := top.PeekASN1Tag(cbasn1.Tag(op.Tag))
		switch op.Cls {
		case "U64":
			var x uint64
			ok := top.ReadOptionalASN1Integer(&x, cbasn1.Tag(op.Tag), def.Uint64())
			s, v := bigObs(new(big.Int).SetUint64(x))
			return done(ok, s, v, b2i(present))
		case "BIG":
			x := new(big.Int)
			ok := top.ReadOptionalASN1Integer(x, cbasn1.Tag(op.Tag), def)
			s, v := bigObs(x)
			return done(ok, s, v, b2i(present))
		default:
			var x int64
			ok := top.ReadOptionalASN1Integer(&x, cbasn1.Tag(op.Tag), def.Int64())
			s, v := bigObs(big.NewInt(x))
			return done(ok, s, v, b2i(present))
		}
	case "roptoctet":
		var x []byte
		var present bool
		ok := top.ReadOptionalASN1OctetString(&x, &present, cbasn1.Tag(op.Tag))
		return done(ok, 0, toInts(x), b2i(present))
	case "roptbool":
		var x bool
		present := top.PeekASN1Tag(cbasn1.BOOLEAN)
		ok := top.ReadOptionalASN1Boolean(&x, op.S == 1)
		return done(ok, b2i(x), nil, b2i(present))
	}
	obs.Fatal("unknown read op %q", op.Op)
	return
}

// runReads executes r on input; stops after the first failing read (as RunR does).
func runReads(input []byte, r []ROp) (out []RObs, panicked string) {
	defer func() {
		if x := recover(); x != nil {
			panicked = fmt.Sprintf("%v", x)
		}
	}()
	st := []cryptobyte.String{cryptobyte.String(input)}
	for _, op := range r {
		o := rstep(&st, op)
		out = append(out, o)
		if !o.Ok {
			break
		}
	}
	return out, ""
}

// ---------------------------------------------------------------- comparison

type Disagreement struct {
	Sig  map[string]any
	What string
}

func kinds(w []WOp) string {
	set := map[string]bool{}
	for _, op := range w {
		k := op.Op
		if k == "open" {
			k += strconv.Itoa(op.W)
		}
		if k != "close" {
			set[k] = true
		}
	}
	var ks []string
	for k := range set {
		ks = append(ks, k)
	}
	sort.Strings(ks)
	return strings.Join(ks, "+")
}

// argClass: coarse class of the value read (part of the signature only).
func argClass(op ROp, want RObs) string {
	if op.Op == "roid" && len(want.V) >= 2 {
		sub := append([]int64{want.V[0]*40 + want.V[1]}, want.V[2:]...)
		for _, a := range sub {
			if a >= 1<<28 {
				return "subid>=2^28"
			}
		}
		return "subids<2^28"
	}
	return ""
}

func compareReads(style string, r []ROp, want, got []RObs, panicked string) *Disagreement {
	if panicked != "" {
		return &Disagreement{map[string]any{"stage": "read", "style": style, "field": "panic"}, "reader panicked: " + panicked}
	}
	for i := range want {
		if i >= len(got) {
			return &Disagreement{map[string]any{"stage": "read", "style": style, "field": "missing"}, "harness stopped early"}
		}
		w, g, op := want[i], got[i], r[i]
		field := ""
		switch {
		case w.Ok != g.Ok:
			field = "ok"
		case !w.Ok:
			return nil
		case w.S != g.S || !sameOctets(g.V, w.V, w.Big):
			field = "value"
		case w.P != g.P:
			field = "present"
		case w.Rest != g.Rest || w.Depth != g.Depth:
			field = "rest"
		}
		if field != "" {
			return &Disagreement{
				map[string]any{"stage": "read", "op": op.Op, "field": field, "want_ok": w.Ok, "present": w.P == 1, "arg": argClass(op, w)},
				fmt.Sprintf("%s read #%d %s(tag %d): real %+v, specification demands %+v", style, i+1, op.Op, op.Tag, g, w)}
		}
	}
	return nil
}

func checkProgram(p *Program) *Disagreement {
	out, failed, panicked := runBuild(p.W)
	if panicked != "" {
		return &Disagreement{map[string]any{"stage": "build", "field": "panic", "kinds": kinds(p.W)}, "Builder panicked: " + panicked}
	}
	if failed != p.Err {
		return &Disagreement{map[string]any{"stage": "build", "field": "err", "kinds": kinds(p.W)},
			fmt.Sprintf("Builder error = %v, specification demands %v", failed, p.Err)}
	}
	if p.Err {
		return nil
	}
	wantB, wantBig, err := parseOctets(p.Bytes)
	if err != nil {
		obs.Fatal("bytes of the program: %v", err)
	}
	if !sameOctets(toInts(out), wantB, wantBig) {
		return &Disagreement{map[string]any{"stage": "build", "field": "bytes", "kinds": kinds(p.W)},
			fmt.Sprintf("Builder wrote %s, specification demands %s", short(out), p.Bytes)}
	}
	g1, pn := runReads(out, p.R1)
	if d := compareReads("plain", p.R1, p.O1, g1, pn); d != nil {
		return d
	}
	g2, pn := runReads(out, p.R2)
	return compareReads("optional", p.R2, p.O2, g2, pn)
}

func short(b []byte) string {
	if len(b) <= 64 {
		return fmt.Sprintf("[% x]", b)
	}
	return fmt.Sprintf("[% x ... % x] (%d bytes)", b[:24], b[len(b)-8:], len(b))
}

func nontrivial(p *Program) bool {
	// nesting, a long-form ASN.1 length, an optional element, or an error
	if p.Err || len(p.Bytes) > 400 {
		return true
	}
	for _, op := range p.W {
		if op.Op == "open" || op.Op == "asn1" {
			return true
		}
	}
	for _, o := range p.O2 {
		if o.P == 1 {
			return true
		}
	}
	return false
}

func main() {
	if len(os.Args) < 3 {
		obs.Fatal("usage")
	}
	switch os.Args[1] {
	case "replay-gen":
		n, bad, nontriv, reads, optPresent, errs := 0, 0, 0, 0, 0, 0
		seen := map[string]bool{}
		err := obs.ReadLines(os.Args[2], func(line []byte) error {
			var p Program
			if err := json.Unmarshal(line, &p); err != nil {
				return fmt.Errorf("%v: %s", err, line[:min(len(line), 200)])
			}
			n++
			if nontrivial(&p) {
				nontriv++
			}
			if p.Err {
				errs++
			}
			reads += len(p.O1) + len(p.O2)
			for _, o := range p.O2 {
				optPresent += o.P
			}
			if d := checkProgram(&p); d != nil {
				bad++
				k, _ := json.Marshal(d.Sig)
				if !seen[string(k)] {
					seen[string(k)] = true
					obs.Emit(obs.Candidate{Sig: d.Sig, What: d.What, Case: p})
				}
			}
			return nil
		})
		if err != nil {
			obs.Fatal("%v", err)
		}
		obs.Stat("programs", n)
		obs.Stat("nontrivial", nontriv)
		obs.Stat("reads", reads)
		obs.Stat("optional_present", optPresent)
		obs.Stat("error_programs", errs)
		obs.Stat("disagreements", bad)
	case "replay":
		var p Program
		obs.ReadReplay(os.Args[2], &p)
		if d := checkProgram(&p); d != nil {
			fmt.Println("REPRODUCED:", d.What)
			os.Exit(1)
		}
		fmt.Println("not reproduced")
	case "record":
		n, _ := strconv.Atoi(os.Args[3])
		w := obs.NewWriter(os.Args[2])
		rng := rand.New(rand.NewSource(obs.Seed()))
		for i := 0; i < n; i++ {
			ops, rd := randomProgram(rng)
			record(w, ops, rd)
		}
		w.Close()
		obs.Stat("programs", n)
	case "record-one":
		var p struct {
			W []WOp `json:"w"`
			R []ROp `json:"r"`
		}
		obs.ReadReplay(os.Args[2], &p)
		w := obs.NewWriter(os.Args[3])
		record(w, p.W, p.R)
		w.Close()
	default:
		obs.Fatal("unknown command")
	}
}

// record runs a write program and a read program on the real code and logs what happened.
func record(w *obs.Writer, ops []WOp, r []ROp) {
	out, failed, panicked := runBuild(ops)
	rec := map[string]any{"w": ops, "err": failed, "bytes": toInts(out), "panic": panicked != "", "r": r, "o": []RObs{}}
	if !failed && panicked == "" {
		o, pn := runReads(out, r)
		if o == nil {
			o = []RObs{}
		}
		rec["o"] = o
		rec["panic"] = pn != ""
	}
	w.Write(rec)
}

// ---------------------------------------------------------------- random long programs
// The read program is the matching one with random optional probes and, rarely, a
// non-matching reader; TLC (Trace_CryptoByte) judges every observation.

func randMag(rng *rand.Rand, maxLen int) []int64 {
	n := rng.Intn(maxLen + 1)
	m := make([]int64, n)
	for i := range m {
		m[i] = int64(rng.Intn(256))
	}
	if n > 0 && m[0] == 0 {
		m[0] = 1 + int64(rng.Intn(255))
	}
	if n > 0 && rng.Intn(3) == 0 {
		m[0] = []int64{0x7f, 0x80, 0xff, 0x01}[rng.Intn(4)]
	}
	return m
}

func randomProgram(rng *rand.Rand) ([]WOp, []ROp) {
	var w []WOp
	var r []ROp
	probe := func() {
		if rng.Intn(3) != 0 {
			return
		}
		switch rng.Intn(5) {
		case 0:
			r = append(r, ROp{Op: "peek", Tag: 167})
		case 1:
			r = append(r, ROp{Op: "roptint", Tag: 167, Cls: "S64", V: []int64{5}, S: 1})
		case 2:
			r = append(r, ROp{Op: "roptoctet", Tag: 167})
		case 3:
			r = append(r, ROp{Op: "skipopt", Tag: 167})
		default:
			r = append(r, ROp{Op: "ropt", Tag: 167})
		}
	}
	var gen func(depth, items int)
	gen = func(depth, items int) {
		for k := 0; k < items; k++ {
			c := rng.Intn(16)
			asn := c >= 4
			if asn {
				probe()
			}
			switch c {
			case 0:
				wd := 1 + rng.Intn(4)
				v := make([]int64, wd)
				for i := range v {
					v[i] = int64(rng.Intn(256))
				}
				w = append(w, WOp{Op: "u", W: wd, V: v})
				r = append(r, ROp{Op: "u", W: wd})
			case 1:
				n := rng.Intn(6)
				v := make([]int64, n)
				for i := range v {
					v[i] = int64(rng.Intn(256))
				}
				w = append(w, WOp{Op: "bytes", V: v})
				r = append(r, ROp{Op: "rbytes", W: n})
			case 2:
				n := []int{100, 127, 128, 129, 255, 256, 300}[rng.Intn(7)]
				w = append(w, WOp{Op: "fill", W: n, Tag: rng.Intn(256)})
				r = append(r, ROp{Op: "rbytes", W: n})
			case 3, 4, 5:
				if depth >= 3 {
					k--
					continue
				}
				if c == 3 {
					wd := 1 + rng.Intn(4)
					w = append(w, WOp{Op: "open", W: wd})
					r = append(r, ROp{Op: "ropen", W: wd})
				} else {
					tag := []int{0x30, 0x31, 0xa0, 0xa1, 0xa3, 0x04, 0x80}[rng.Intn(7)]
					w = append(w, WOp{Op: "asn1", Tag: tag})
					r = append(r, ROp{Op: "rasn1", Tag: tag})
				}
				gen(depth+1, rng.Intn(4))
				w = append(w, WOp{Op: "close"})
				r = append(r, ROp{Op: "rclose"})
			case 6:
				m := randMag(rng, 8)
				s := 0
				if len(m) > 0 {
					s = []int{1, -1}[rng.Intn(2)]
				}
				x := bigOfNoCheck(s, m)
				if !x.IsInt64() {
					s, m = 1, []int64{0x7f, 0xff}
				}
				w = append(w, WOp{Op: "int64", S: s, V: m})
				r = append(r, ROp{Op: "rint", Tag: 2, Cls: "S64"})
			case 7:
				m := randMag(rng, 8)
				w = append(w, WOp{Op: "uint64", S: b2i(len(m) > 0), V: m})
				r = append(r, ROp{Op: "rint", Tag: 2, Cls: "U64"})
			case 8:
				m := randMag(rng, 20)
				s := 0
				if len(m) > 0 {
					s = []int{1, -1}[rng.Intn(2)]
				}
				w = append(w, WOp{Op: "bigint", S: s, V: m})
				r = append(r, ROp{Op: "rint", Tag: 2, Cls: "BIG"})
			case 9:
				v := rng.Intn(2)
				w = append(w, WOp{Op: "bool", S: v})
				if rng.Intn(2) == 0 {
					r = append(r, ROp{Op: "roptbool", S: 1 - v})
				} else {
					r = append(r, ROp{Op: "rbool"})
				}
			case 10:
				first := rng.Intn(3)
				second := rng.Intn(40)
				if first == 2 {
					second = rng.Intn(100000)
				}
				arcs := []int64{int64(first), int64(second)}
				for i := rng.Intn(8); i > 0; i-- {
					arcs = append(arcs, int64(rng.Intn(1<<uint(1+rng.Intn(27)))))
				}
				w = append(w, WOp{Op: "oid", V: arcs})
				r = append(r, ROp{Op: "roid"})
			case 11:
				n := rng.Intn(5)
				if rng.Intn(5) == 0 {
					n = 126 + rng.Intn(5)
				}
				v := make([]int64, n)
				for i := range v {
					v[i] = int64(rng.Intn(256))
				}
				w = append(w, WOp{Op: "octet", V: v})
				if rng.Intn(2) == 0 {
					r = append(r, ROp{Op: "ropt", Tag: 4})
				} else {
					r = append(r, ROp{Op: "roctet"})
				}
			case 12:
				n := rng.Intn(4)
				v := make([]int64, n)
				for i := range v {
					v[i] = int64(rng.Intn(256))
				}
				w = append(w, WOp{Op: "bits", V: v})
				r = append(r, ROp{Op: []string{"rbits", "rbitsbytes"}[rng.Intn(2)]})
			case 13:
				off := int64(0)
				if rng.Intn(3) == 0 {
					off = int64((rng.Intn(2*23*60) - 23*60) * 60)
				}
				t := time.Date(rng.Intn(10000), time.Month(1+rng.Intn(12)), 1+rng.Intn(28), rng.Intn(24), rng.Intn(60), rng.Intn(60), 0, time.UTC)
				tv := timeVal(t)
				tv[6] = off
				w = append(w, WOp{Op: "gtime", V: tv})
				r = append(r, ROp{Op: "rgtime"})
			case 14:
				w = append(w, WOp{Op: "null"})
				if rng.Intn(2) == 0 {
					r = append(r, ROp{Op: "skipopt", Tag: 5})
				} else {
					r = append(r, ROp{Op: "rnull"})
				}
			default:
				// explicitly tagged optional integer / octet string
				tag := 0xa0 + rng.Intn(4)
				if rng.Intn(2) == 0 {
					m := randMag(rng, 7)
					s := b2i(len(m) > 0)
					w = append(w, WOp{Op: "asn1", Tag: tag}, WOp{Op: "int64", S: s, V: m}, WOp{Op: "close"})
					r = append(r, ROp{Op: "roptint", Tag: tag, Cls: "S64", V: []int64{9}, S: 1})
				} else {
					w = append(w, WOp{Op: "asn1", Tag: tag}, WOp{Op: "octet", V: []int64{1, 2, 3}}, WOp{Op: "close"})
					r = append(r, ROp{Op: "roptoctet", Tag: tag})
				}
			}
		}
		probe()
	}
	gen(0, 2+rng.Intn(7))
	// rarely: a non-matching reader somewhere (TLC decides what it must return)
	if rng.Intn(6) == 0 && len(r) > 0 {
		i := rng.Intn(len(r))
		if r[i].Op != "rclose" && r[i].Op != "ropen" && r[i].Op != "rasn1" {
			r[i] = []ROp{{Op: "rbool"}, {Op: "rint", Tag: 2, Cls: "S64"}, {Op: "roid"}, {Op: "u", W: 2}, {Op: "roptbool", S: 1}}[rng.Intn(5)]
			r = r[:i+1]
		}
	}
	return w, r
}

func bigOfNoCheck(s int, mag []int64) *big.Int {
	n := new(big.Int).SetBytes(toBytes(mag))
	if s < 0 {
		n.Neg(n)
	}
	return n
}
