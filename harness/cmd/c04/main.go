// c04: conformance harness binding Issuance.tla (operator Expected) to
// x509.CreateCertificate -> x509.ParseCertificate -> CheckSignatureFrom.
//
//	c04 replay-gen <cases.ndjson> [ders.out]  TLC-generated {t, exp}: run, project, Judge
//	c04 replay <replay.json>                  one case (exit 1 if the real code disagrees)
//	c04 record <out.ndjson> <n> [ders.out]    n rapid-generated templates -> {t, obs} for TLC
//	c04 record-one <replay.json> <out.ndjson> re-run one logged template for TLC
package main

import (
	"encoding/json"
	"fmt"
	"os"
	"sort"
	"strconv"
	"strings"

	"verifharness/lib/iss"
	"verifharness/lib/obs"
)

type Case struct {
	T   iss.CertTemplate `json:"t"`
	Exp *iss.Expected    `json:"exp,omitempty"`
	Obs *iss.Obs         `json:"obs,omitempty"`
	// which observer disagreed: "zcrypto" (ParseCertificate) or "stdlib" (crypto/x509 on the same DER)
	Observer string `json:"observer,omitempty"`
}

func pad(alg string) string {
	switch {
	case strings.Contains(alg, "PSS"):
		return "pss"
	case strings.HasSuffix(alg, "-RSA"):
		return "pkcs1v15"
	}
	return "none"
}

// nc16: does the template carry an IPv4 name-constraint range written as 16-byte address + 4-byte mask?
func nc16(t iss.CertTemplate) bool {
	for _, n := range append(append([]iss.Net{}, t.PIP...), t.XIP...) {
		if len(n.IP) == 16 && len(n.Mask) == 4 {
			return true
		}
	}
	return false
}

func sigOf(dir, observer string, t iss.CertTemplate, bad []string) map[string]any {
	if len(bad) == 1 && bad[0] == "outcome" {
		// the call failed / the result does not parse: key and algorithm choices are not part of the pattern
		return map[string]any{"obj": "cert", "dir": dir, "observer": observer, "fields": "outcome", "nc16": nc16(t),
			"pad": "", "signer": "", "parent": ""}
	}
	return map[string]any{"obj": "cert", "dir": dir, "observer": observer, "fields": strings.Join(bad, ","), "nc16": nc16(t),
		"pad": pad(t.SigAlg), "signer": iss.Family(t.SignerKey), "parent": t.Parent.Kind}
}

// judge runs one case and returns the disagreeing fields per observer.
func judge(c Case) (zbad, sbad []string, is *iss.Issued) {
	var err error
	g := obs.Guard(120e9, func() { is, err = iss.RunCert(c.T) })
	if g.Panic != "" || g.Timeout {
		return []string{"panic:" + g.Panic}, nil, &iss.Issued{Obs: iss.Obs{Outcome: "panic", Err: g.Panic}}
	}
	if err != nil {
		obs.Fatal("concretisation failed for %s: %v", mustJSON(c.T), err)
	}
	zbad = iss.Judge(*c.Exp, is.Obs, false)
	if is.StdObs != nil {
		sbad = iss.Judge(*c.Exp, *is.StdObs, true)
	}
	return
}

func mustJSON(v any) string { b, _ := json.Marshal(v); return string(b) }

func nontrivial(t iss.CertTemplate) bool {
	// at least one extension-bearing field or a non-default key/algorithm/parent choice
	return t.KU != 0 || len(t.EKUs)+len(t.UEKUs) > 0 || t.BC || t.SKID != "" || t.AKID != "" ||
		len(t.OCSP)+len(t.IURL)+len(t.DNS)+len(t.Emails)+len(t.IPs)+len(t.Policies)+len(t.CRLDP) > 0 ||
		len(t.PDNS)+len(t.XDNS)+len(t.PEmail)+len(t.XEmail)+len(t.PIP)+len(t.XIP)+len(t.PDir)+len(t.XDir) > 0 ||
		len(t.Extras) > 0 || t.SigAlg != "default" || len(t.RawSubject) > 0
}

func main() {
	if len(os.Args) < 3 {
		obs.Fatal("usage")
	}
	switch os.Args[1] {
	case "replay-gen":
		var dump *os.File
		if len(os.Args) > 3 {
			dump, _ = os.Create(os.Args[3])
			defer dump.Close()
		}
		n, bad, nontriv, stdParsed, stdFail, errs := 0, 0, 0, 0, 0, 0
		seen := map[string]bool{}
		stdErrs := map[string]int{}
		err := obs.ReadLines(os.Args[2], func(line []byte) error {
			var c Case
			if err := json.Unmarshal(line, &c); err != nil {
				return err
			}
			n++
			if nontrivial(c.T) {
				nontriv++
			}
			zbad, sbad, is := judge(c)
			if is.Obs.Outcome != "ok" {
				errs++
			}
			if is.StdObs != nil {
				stdParsed++
			} else if is.StdErr != nil {
				stdFail++
				stdErrs[is.StdErr.Error()]++
			}
			if dump != nil && is.DER != nil && is.Parsed != nil {
				fmt.Fprintf(dump, "%x\n", is.DER)
			}
			emit := func(observer string, b []string, o *iss.Obs) {
				bad++
				sig := sigOf("gen", observer, c.T, b)
				sig["stage"] = ""
				if i := strings.Index(o.Err, ":"); i > 0 && o.Outcome == "error" {
					sig["stage"] = o.Err[:i]
				}
				k := mustJSON(sig)
				if seen[k] {
					return
				}
				seen[k] = true
				cc := c
				cc.Obs, cc.Observer = o, observer
				obs.Emit(obs.Candidate{Sig: sig, What: fmt.Sprintf("%s view of the created certificate disagrees with Expected in %v (err=%q)", observer, b, o.Err), Case: cc})
			}
			if len(zbad) > 0 {
				emit("zcrypto", zbad, &is.Obs)
			}
			if len(sbad) > 0 {
				emit("stdlib", sbad, is.StdObs)
			}
			return nil
		})
		if err != nil {
			obs.Fatal("%v", err)
		}
		obs.Stat("cases", n)
		obs.Stat("nontrivial", nontriv)
		obs.Stat("disagreements", bad)
		obs.Stat("rejected_by_create_or_parse", errs)
		obs.Stat("std_parsed", stdParsed)
		obs.Stat("std_refused", stdFail)
		if len(stdErrs) > 0 {
			obs.Stat("std_refusals", stdErrs)
		}
	case "replay":
		var c Case
		obs.ReadReplay(os.Args[2], &c)
		if c.Exp == nil {
			obs.Fatal("replay file without exp (validation-direction replays go through record-one + TLC)")
		}
		zbad, sbad, is := judge(c)
		if len(zbad) > 0 || len(sbad) > 0 {
			fmt.Printf("REPRODUCED: zcrypto %v stdlib %v err=%q\n", zbad, sbad, is.Obs.Err)
			os.Exit(1)
		}
		fmt.Println("not reproduced")
	case "record":
		cnt, _ := strconv.Atoi(os.Args[3])
		var dump *os.File
		if len(os.Args) > 4 {
			dump, _ = os.Create(os.Args[4])
			defer dump.Close()
		}
		w := obs.NewWriter(os.Args[2])
		gen := iss.GenCertTemplate()
		seed := int(obs.Seed())
		nontriv, stdParsed, errs := 0, 0, 0
		outcomes := map[string]int{}
		for i := 0; i < cnt; i++ {
			t := gen.Example(seed*1000003 + i)
			is := runLogged(w, t)
			outcomes[is.Obs.Outcome]++
			if nontrivial(t) {
				nontriv++
			}
			if is.StdObs != nil {
				stdParsed++
			}
			if is.Obs.Outcome != "ok" {
				errs++
			}
			if dump != nil && is.Parsed != nil {
				fmt.Fprintf(dump, "%x\n", is.DER)
			}
		}
		w.Close()
		obs.Stat("records", w.N)
		obs.Stat("nontrivial", nontriv)
		obs.Stat("std_parsed", stdParsed)
		obs.Stat("outcomes", outcomes)
	case "record-one":
		var c Case
		obs.ReadReplay(os.Args[2], &c)
		w := obs.NewWriter(os.Args[3])
		runLogged(w, c.T)
		w.Close()
	default:
		obs.Fatal("unknown command")
	}
}

// runLogged runs the real code on t and logs {t, obs, std} for TLC.
func runLogged(w *obs.Writer, t iss.CertTemplate) *iss.Issued {
	var is *iss.Issued
	var err error
	g := obs.Guard(120e9, func() { is, err = iss.RunCert(t) })
	if g.Panic != "" || g.Timeout {
		is = &iss.Issued{Obs: iss.Obs{Outcome: "panic", Err: g.Panic, Val: map[string]any{}}}
	} else if err != nil {
		obs.Fatal("concretisation failed for %s: %v", mustJSON(t), err)
	}
	rec := map[string]any{"t": t, "obs": is.Obs, "hasStd": is.StdObs != nil}
	if is.StdObs != nil {
		rec["std"] = is.StdObs
		keys := make([]string, 0, len(is.StdObs.Val))
		for k := range is.StdObs.Val {
			keys = append(keys, k)
		}
		sort.Strings(keys)
		rec["stdFields"] = keys
	} else {
		rec["std"] = iss.Obs{Outcome: "none", Val: map[string]any{}}
		if is.StdErr != nil {
			rec["stdErr"] = is.StdErr.Error()
		}
		rec["stdFields"] = []string{}
	}
	w.Write(rec)
	return is
}
