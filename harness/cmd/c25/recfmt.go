package main

import (
	"bytes"
	"crypto/sha256"
	"encoding/binary"
	"encoding/hex"
	"fmt"
	"time"

	"github.com/zmap/zcrypto/tls"
	"verifharness/lib/obs"
	"verifharness/lib/term"
)

// ---- CBC padding -----------------------------------------------------------------------------

type PadCase struct {
	Tail     []int `json:"tail"`
	L        int   `json:"L"`
	Payload  []int `json:"payload"`
	ToRemove int   `json:"toRemove"`
	Good     int   `json:"good"`
}

func runPad(c *PadCase) *finding {
	p := make([]byte, len(c.Payload))
	for i, x := range c.Payload {
		p[i] = byte(x)
	}
	tr, good := tls.VerifExtractPadding(p)
	if tr != c.ToRemove || int(good) != c.Good {
		tail := p
		if len(tail) > 6 {
			tail = tail[len(tail)-6:]
		}
		return &finding{"padding", fmt.Sprintf("extractPadding(%d bytes ending in %x) = (%d, %d), RFC 2246 6.2.3.2 gives (%d, %d)",
			len(p), tail, tr, good, c.ToRemove, c.Good)}
	}
	return nil
}

// ---- record formats --------------------------------------------------------------------------

type RP struct {
	Cls     string `json:"cls"`
	Ver     int    `json:"ver"`
	BC      string `json:"bc"`
	Mach    string `json:"mach"`
	Suite13 int    `json:"suite13"`
}

type Bind struct {
	Name string `json:"name"`
	Rec  int    `json:"rec"`
	Off  int    `json:"off"`
	N    int    `json:"n"`
}

type FmtOption struct {
	Opt  int    `json:"opt"`
	Term term.T `json:"term"`
}

type FmtRec struct {
	Typ     int         `json:"typ"`
	N       int         `json:"n"`
	Binds   []Bind      `json:"binds"`
	Options []FmtOption `json:"options"`
}

type FmtCase struct {
	RP     RP       `json:"rp"`
	Suite  int      `json:"suite"`
	KeyLen int      `json:"keyLen"`
	IVLen  int      `json:"ivLen"`
	Recs   []FmtRec `json:"recs"`
	Kind   string   `json:"kind,omitempty"`
	Seed   int64    `json:"seed,omitempty"`
}

func fillVar(seed int64, name string, n int) []byte {
	out := make([]byte, 0, n+32)
	var ctr uint32
	for len(out) < n {
		var hdr [12]byte
		binary.BigEndian.PutUint64(hdr[:8], uint64(seed))
		binary.BigEndian.PutUint32(hdr[8:], ctr)
		h := sha256.Sum256(append(hdr[:], name...))
		out = append(out, h[:]...)
		ctr++
	}
	return out[:n]
}

func wireVersion(ver int) uint16 {
	if ver == 772 {
		return 0x0303
	}
	return uint16(ver)
}

// runFmt: encrypt the record sequence with the real halfConn and compare every record with the
// admissible encodings the specification lists; then decrypt with a receiving halfConn.
func runFmt(c *FmtCase, seed int64) (*finding, error) {
	macLen := map[string]int{"sha1": 20, "sha256": 32, "": 0}[c.RP.Mach]
	hl := 32
	env := term.Env{}
	var snd, rcv *tls.VerifHalfConn
	var err error
	if c.RP.Cls == "tls13" {
		if c.RP.Suite13 == 4866 {
			hl = 48
		}
		env["secret"] = fillVar(seed, "secret", hl)
		if snd, err = tls.VerifNewHalfConnTLS13(uint16(c.Suite), env["secret"]); err != nil {
			return nil, err
		}
		if rcv, err = tls.VerifNewHalfConnTLS13(uint16(c.Suite), env["secret"]); err != nil {
			return nil, err
		}
	} else {
		si, ok := tls.VerifSuiteByID(uint16(c.Suite))
		if !ok {
			return nil, fmt.Errorf("suite %#x not implemented", c.Suite)
		}
		if si.KeyLen != c.KeyLen || si.IVLen != c.IVLen || si.MacLen != macLen {
			return &finding{"format", fmt.Sprintf("suite %#04x has key/iv/mac lengths %d/%d/%d, its RFC gives %d/%d/%d",
				c.Suite, si.KeyLen, si.IVLen, si.MacLen, c.KeyLen, c.IVLen, macLen)}, nil
		}
		env["key"] = fillVar(seed, "key", c.KeyLen)
		env["iv"] = fillVar(seed, "iv", c.IVLen)
		env["mackey"] = fillVar(seed, "mackey", macLen)
		if snd, err = tls.VerifNewHalfConn(uint16(c.RP.Ver), uint16(c.Suite), env["key"], env["iv"], env["mackey"], false); err != nil {
			return nil, err
		}
		if rcv, err = tls.VerifNewHalfConn(uint16(c.RP.Ver), uint16(c.Suite), env["key"], env["iv"], env["mackey"], true); err != nil {
			return nil, err
		}
	}
	rnd := &detRand{n: uint64(seed)}
	var observed [][]byte
	for i, r := range c.Recs {
		pt := fillVar(seed, fmt.Sprintf("pt%d", i+1), r.N)
		env[fmt.Sprintf("pt%d", i+1)] = pt
		hdr := []byte{byte(r.Typ), byte(wireVersion(c.RP.Ver) >> 8), byte(wireVersion(c.RP.Ver)), byte(r.N >> 8), byte(r.N)}
		rec, err := snd.Encrypt(hdr, pt, rnd)
		if err != nil {
			return nil, fmt.Errorf("encrypt: %v", err)
		}
		observed = append(observed, rec)
		// sender-chosen variables come from the observed records, as the specification says
		for _, b := range r.Binds {
			src := observed[b.Rec-1]
			off := b.Off
			if off < 0 {
				off = len(src) + off
			}
			if off < 0 || off+b.N > len(src) {
				return &finding{"format", fmt.Sprintf("%s record %d: too short (%d bytes) to carry its %s", c.RP.Cls, b.Rec, len(src), b.Name)}, nil
			}
			env[b.Name] = src[off : off+b.N]
		}
		matched := false
		var lens []int
		for _, o := range r.Options {
			want, err := term.Eval(&o.Term, env)
			if err != nil {
				return nil, fmt.Errorf("evaluating the demanded record: %v", err)
			}
			lens = append(lens, len(want))
			if bytes.Equal(want, rec) {
				matched = true
				break
			}
		}
		if !matched {
			return &finding{"format", fmt.Sprintf("%s/%#04x record %d (type %d, %d plaintext bytes, sequence number %d): the %d bytes %s... are none of the %d encodings the RFC admits",
				c.RP.Cls, c.RP.Ver, i+1, r.Typ, r.N, i, len(rec), hex.EncodeToString(rec[:min(len(rec), 16)]), len(r.Options))}, nil
		}
		// and the receiving side reads it back
		got, typ, _, err := rcv.Decrypt(rec)
		if err != nil {
			return &finding{"format-decrypt", fmt.Sprintf("%s/%#04x record %d: decrypt of an untouched record failed: %v", c.RP.Cls, c.RP.Ver, i+1, err)}, nil
		}
		if !bytes.Equal(got, pt) || int(typ) != r.Typ {
			return &finding{"format-decrypt", fmt.Sprintf("%s/%#04x record %d: decrypt returned type %d and %d bytes, sent type %d and %d bytes", c.RP.Cls, c.RP.Ver, i+1, typ, len(got), r.Typ, len(pt))}, nil
		}
	}
	return nil, nil
}

// ---- sequence-number boundaries -----------------------------------------------------------------

type SeqFmtRec struct {
	Typ     int         `json:"typ"`
	N       int         `json:"n"`
	Num     []int       `json:"num"`   // the 8-octet sequence number the record must be protected with
	Last    bool        `json:"last"`  // 2^64-1: the record may be refused; nothing may follow
	After   []int       `json:"after"` // the sequence number afterwards
	Binds   []Bind      `json:"binds"`
	Options []FmtOption `json:"options"`
}

type SeqFmtCase struct {
	RP     RP          `json:"rp"`
	Suite  int         `json:"suite"`
	KeyLen int         `json:"keyLen"`
	IVLen  int         `json:"ivLen"`
	Start  []int       `json:"start"`
	Recs   []SeqFmtRec `json:"recs"`
	Kind   string      `json:"kind,omitempty"`
	Seed   int64       `json:"seed,omitempty"`
}

func seq8(a []int) (s [8]byte) {
	for i := 0; i < 8 && i < len(a); i++ {
		s[i] = byte(a[i])
	}
	return
}

// runSeqFmt: both halves are put at the boundary sequence number; every record the sender produces
// must be the RFC encoding under that 8-octet number, the receiver must read it back, and both
// sequence numbers must afterwards be the successor the specification computed.
func runSeqFmt(c *SeqFmtCase, seed int64) (*finding, error) {
	macLen := map[string]int{"sha1": 20, "sha256": 32, "": 0}[c.RP.Mach]
	env := term.Env{}
	var snd, rcv *tls.VerifHalfConn
	var err error
	if c.RP.Cls == "tls13" {
		hl := 32
		if c.RP.Suite13 == 4866 {
			hl = 48
		}
		env["secret"] = fillVar(seed, "secret", hl)
		if snd, err = tls.VerifNewHalfConnTLS13(uint16(c.Suite), env["secret"]); err != nil {
			return nil, err
		}
		if rcv, err = tls.VerifNewHalfConnTLS13(uint16(c.Suite), env["secret"]); err != nil {
			return nil, err
		}
	} else {
		env["key"] = fillVar(seed, "key", c.KeyLen)
		env["iv"] = fillVar(seed, "iv", c.IVLen)
		env["mackey"] = fillVar(seed, "mackey", macLen)
		if snd, err = tls.VerifNewHalfConn(uint16(c.RP.Ver), uint16(c.Suite), env["key"], env["iv"], env["mackey"], false); err != nil {
			return nil, err
		}
		if rcv, err = tls.VerifNewHalfConn(uint16(c.RP.Ver), uint16(c.Suite), env["key"], env["iv"], env["mackey"], true); err != nil {
			return nil, err
		}
	}
	start := seq8(c.Start)
	snd.SetSeq(start)
	rcv.SetSeq(start)
	rnd := &detRand{n: uint64(seed)}
	where := func(i int) string {
		return fmt.Sprintf("%s/%#04x at sequence number %x, record %d", c.RP.Cls, c.RP.Ver, start, i+1)
	}
	var observed [][]byte
	for i, r := range c.Recs {
		pt := fillVar(seed, fmt.Sprintf("pt%d", i+1), r.N)
		env[fmt.Sprintf("pt%d", i+1)] = pt
		hdr := []byte{byte(r.Typ), byte(wireVersion(c.RP.Ver) >> 8), byte(wireVersion(c.RP.Ver)), byte(r.N >> 8), byte(r.N)}
		var rec []byte
		var eerr error
		o := obs.Guard(60*time.Second, func() { rec, eerr = snd.Encrypt(hdr, pt, rnd) })
		if o.Timeout {
			return nil, fmt.Errorf("encrypt timed out")
		}
		if o.Panic != "" || eerr != nil {
			if r.Last {
				return nil, nil // refusing to go beyond 2^64-1 is what "sequence numbers do not wrap" asks for
			}
			return &finding{"seq-refused", fmt.Sprintf("%s: encrypt failed (%v %s) although the sequence number can still grow", where(i), eerr, o.Panic)}, nil
		}
		observed = append(observed, rec)
		for _, b := range r.Binds {
			src := observed[b.Rec-1]
			off := b.Off
			if off < 0 {
				off = len(src) + off
			}
			if off < 0 || off+b.N > len(src) {
				return &finding{"seq-format", fmt.Sprintf("%s: too short (%d bytes) to carry its %s", where(i), len(src), b.Name)}, nil
			}
			env[b.Name] = src[off : off+b.N]
		}
		matched := false
		for _, op := range r.Options {
			want, err := term.Eval(&op.Term, env)
			if err != nil {
				return nil, fmt.Errorf("evaluating the demanded record: %v", err)
			}
			if bytes.Equal(want, rec) {
				matched = true
				break
			}
		}
		if !matched {
			return &finding{"seq-format", fmt.Sprintf("%s: the %d bytes %s... are not the RFC encoding under the 8-octet sequence number %x",
				where(i), len(rec), hex.EncodeToString(rec[:min(len(rec), 16)]), seq8(r.Num))}, nil
		}
		if r.Last {
			// produced at 2^64-1: then nothing may follow
			var e2 error
			o := obs.Guard(60*time.Second, func() { _, e2 = snd.Encrypt(hdr, pt, rnd) })
			if o.Panic == "" && e2 == nil {
				return &finding{"seq-wrap", fmt.Sprintf("%s: a further record was protected after sequence number 2^64-1", where(i))}, nil
			}
			return nil, nil
		}
		if got := snd.Seq(); got != seq8(r.After) {
			return &finding{"seq-next", fmt.Sprintf("%s: the sender's sequence number afterwards is %x, must be %x", where(i), got, seq8(r.After))}, nil
		}
		var got []byte
		var typ uint8
		var derr error
		o = obs.Guard(60*time.Second, func() { got, typ, _, derr = rcv.Decrypt(rec) })
		if o.Panic != "" || derr != nil {
			return &finding{"seq-decrypt", fmt.Sprintf("%s: decrypt of the untouched record failed: %v %s", where(i), derr, o.Panic)}, nil
		}
		if !bytes.Equal(got, pt) || int(typ) != r.Typ {
			return &finding{"seq-decrypt", fmt.Sprintf("%s: decrypt returned type %d and %d bytes, sent type %d and %d bytes", where(i), typ, len(got), r.Typ, len(pt))}, nil
		}
		if gs := rcv.Seq(); gs != seq8(r.After) {
			return &finding{"seq-next", fmt.Sprintf("%s: the receiver's sequence number afterwards is %x, must be %x", where(i), gs, seq8(r.After))}, nil
		}
	}
	return nil, nil
}
