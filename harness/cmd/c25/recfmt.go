package main

import (
	"bytes"
	"crypto/sha256"
	"encoding/binary"
	"encoding/hex"
	"fmt"

	"github.com/zmap/zcrypto/tls"
	"verifharness/lib/term"
)

// ---- CBC padding -----------------------------------------------------------------------------

type PadCase struct {
	Tail     []int `json:"tail"`
	L        int   `json:"L"`
	Payload  []int `json:"payload"`
	ToRemove int   `json:"toRemove"`
	Good     int   `json:"good"`
}

func runPad(c *PadCase) *finding {
	p := make([]byte, len(c.Payload))
	for i, x := range c.Payload {
		p[i] = byte(x)
	}
	tr, good := tls.VerifExtractPadding(p)
	if tr != c.ToRemove || int(good) != c.Good {
		tail := p
		if len(tail) > 6 {
			tail = tail[len(tail)-6:]
		}
		return &finding{"padding", fmt.Sprintf("extractPadding(%d bytes ending in %x) = (%d, %d), RFC 2246 6.2.3.2 gives (%d, %d)",
			len(p), tail, tr, good, c.ToRemove, c.Good)}
	}
	return nil
}

// ---- record formats --------------------------------------------------------------------------

type RP struct {
	Cls     string `json:"cls"`
	Ver     int    `json:"ver"`
	BC      string `json:"bc"`
	Mach    string `json:"mach"`
	Suite13 int    `json:"suite13"`
}

type Bind struct {
	Name string `json:"name"`
	Rec  int    `json:"rec"`
	Off  int    `json:"off"`
	N    int    `json:"n"`
}

type FmtOption struct {
	Opt  int    `json:"opt"`
	Term term.T `json:"term"`
}

type FmtRec struct {
	Typ     int         `json:"typ"`
	N       int         `json:"n"`
	Binds   []Bind      `json:"binds"`
	Options []FmtOption `json:"options"`
}

type FmtCase struct {
	RP     RP       `json:"rp"`
	Suite  int      `json:"suite"`
	KeyLen int      `json:"keyLen"`
	IVLen  int      `json:"ivLen"`
	Recs   []FmtRec `json:"recs"`
	Kind   string   `json:"kind,omitempty"`
	Seed   int64    `json:"seed,omitempty"`
}

func fillVar(seed int64, name string, n int) []byte {
	out := make([]byte, 0, n+32)
	var ctr uint32
	for len(out) < n {
		var hdr [12]byte
		binary.BigEndian.PutUint64(hdr[:8], uint64(seed))
		binary.BigEndian.PutUint32(hdr[8:], ctr)
		h := sha256.Sum256(append(hdr[:], name...))
		out = append(out, h[:]...)
		ctr++
	}
	return out[:n]
}

func wireVersion(ver int) uint16 {
	if ver == 772 {
		return 0x0303
	}
	return uint16(ver)
}

// runFmt: encrypt the record sequence with the real halfConn and compare every record with the
// admissible encodings the specification lists; then decrypt with a receiving halfConn.
func runFmt(c *FmtCase, seed int64) (*finding, error) {
	macLen := map[string]int{"sha1": 20, "sha256": 32, "": 0}[c.RP.Mach]
	hl := 32
	env := term.Env{}
	var snd, rcv *tls.VerifHalfConn
	var err error
	if c.RP.Cls == "tls13" {
		if c.RP.Suite13 == 4866 {
			hl = 48
		}
		env["secret"] = fillVar(seed, "secret", hl)
		if snd, err = tls.VerifNewHalfConnTLS13(uint16(c.Suite), env["secret"]); err != nil {
			return nil, err
		}
		if rcv, err = tls.VerifNewHalfConnTLS13(uint16(c.Suite), env["secret"]); err != nil {
			return nil, err
		}
	} else {
		si, ok := tls.VerifSuiteByID(uint16(c.Suite))
		if !ok {
			return nil, fmt.Errorf("suite %#x not implemented", c.Suite)
		}
		if si.KeyLen != c.KeyLen || si.IVLen != c.IVLen || si.MacLen != macLen {
			return &finding{"format", fmt.Sprintf("suite %#04x has key/iv/mac lengths %d/%d/%d, its RFC gives %d/%d/%d",
				c.Suite, si.KeyLen, si.IVLen, si.MacLen, c.KeyLen, c.IVLen, macLen)}, nil
		}
		env["key"] = fillVar(seed, "key", c.KeyLen)
		env["iv"] = fillVar(seed, "iv", c.IVLen)
		env["mackey"] = fillVar(seed, "mackey", macLen)
		if snd, err = tls.VerifNewHalfConn(uint16(c.RP.Ver), uint16(c.Suite), env["key"], env["iv"], env["mackey"], false); err != nil {
			return nil, err
		}
		if rcv, err = tls.VerifNewHalfConn(uint16(c.RP.Ver), uint16(c.Suite), env["key"], env["iv"], env["mackey"], true); err != nil {
			return nil, err
		}
	}
	rnd := &detRand{n: uint64(seed)}
	var observed [][]byte
	for i, r := range c.Recs {
		pt := fillVar(seed, fmt.Sprintf("pt%d", i+1), r.N)
		env[fmt.Sprintf("pt%d", i+1)] = pt
		hdr := []byte{byte(r.Typ), byte(wireVersion(c.RP.Ver) >> 8), byte(wireVersion(c.RP.Ver)), byte(r.N >> 8), byte(r.N)}
		rec, err := snd.Encrypt(hdr, pt, rnd)
		if err != nil {
			return nil, fmt.Errorf("encrypt: %v", err)
		}
		observed = append(observed, rec)
		// sender-chosen variables come from the observed records, as the specification says
		for _, b := range r.Binds {
			src := observed[b.Rec-1]
			off := b.Off
			if off < 0 {
				off = len(src) + off
			}
			if off < 0 || off+b.N > len(src) {
				return &finding{"format", fmt.Sprintf("%s record %d: too short (%d bytes) to carry its %s", c.RP.Cls, b.Rec, len(src), b.Name)}, nil
			}
			env[b.Name] = src[off : off+b.N]
		}
		matched := false
		var lens []int
		for _, o := range r.Options {
			want, err := term.Eval(&o.Term, env)
			if err != nil {
				return nil, fmt.Errorf("evaluating the demanded record: %v", err)
			}
			lens = append(lens, len(want))
			if bytes.Equal(want, rec) {
				matched = true
				break
			}
		}
		if !matched {
			return &finding{"format", fmt.Sprintf("%s/%#04x record %d (type %d, %d plaintext bytes, sequence number %d): the %d bytes %s... are none of the %d encodings the RFC admits",
				c.RP.Cls, c.RP.Ver, i+1, r.Typ, r.N, i, len(rec), hex.EncodeToString(rec[:min(len(rec), 16)]), len(r.Options))}, nil
		}
		// and the receiving side reads it back
		got, typ, _, err := rcv.Decrypt(rec)
		if err != nil {
			return &finding{"format-decrypt", fmt.Sprintf("%s/%#04x record %d: decrypt of an untouched record failed: %v", c.RP.Cls, c.RP.Ver, i+1, err)}, nil
		}
		if !bytes.Equal(got, pt) || int(typ) != r.Typ {
			return &finding{"format-decrypt", fmt.Sprintf("%s/%#04x record %d: decrypt returned type %d and %d bytes, sent type %d and %d bytes", c.RP.Cls, c.RP.Ver, i+1, typ, len(got), r.Typ, len(pt))}, nil
		}
	}
	return nil, nil
}
