// c25: conformance harness binding TLSRecord.tla to zcrypto's record layer.
//
//	c25 combos <expected.ndjson>               handshake every (version, suite, key) candidate; compare the
//	                                           negotiable set with the specification's coverage obligation
//	c25 replay-sched <cases.ndjson> <mode>     TLC fault schedules on real connections (mode "class": every case once
//	                                           per cipher class and direction parity; "all": every case on every
//	                                           negotiable combination in both directions)
//	c25 pad <cases.ndjson>                     Padding(payload) vs extractPadding
//	c25 fmt <cases.ndjson>                     record formats vs halfConn.encrypt / decrypt
//	c25 record <out.ndjson> <n>                n seeded random executions (real fragmentation, random faults,
//	                                           segmentation, read sizes) as events for Trace_TLSRecord
//	c25 record-one <replay.json> <out.ndjson>  re-record one execution
//	c25 replay <replay.json>                   one schedule / padding / format case (exit 1 if reproduced)
package main

import (
	"bytes"
	"encoding/json"
	"fmt"
	"math/rand"
	"os"
	"runtime"
	"sort"
	"strconv"
	"sync"
	"time"

	"github.com/zmap/zcrypto/tls"
	"verifharness/lib/obs"
)

func workers() int {
	w, err := strconv.Atoi(os.Getenv("VERIF_WORKERS"))
	if err != nil || w < 1 {
		w = runtime.NumCPU()
	}
	if w > 16 {
		w = 16
	}
	return w
}

func negotiable() []Combo {
	var ok []Combo
	for _, c := range allCombos() {
		p, err := connect(c, Opts{}, 1)
		if err != nil {
			continue
		}
		p.closeAll()
		ok = append(ok, c)
	}
	sort.Slice(ok, func(i, j int) bool { return ok[i].String() < ok[j].String() })
	return ok
}

type replayBody struct {
	Run    *Run          `json:"run,omitempty"`
	Pad    *PadCase      `json:"pad,omitempty"`
	Fmt    *FmtCase      `json:"fmt,omitempty"`
	SeqFmt *SeqFmtCase   `json:"seqfmt,omitempty"`
	Record *RecordedSpec `json:"record,omitempty"`
}

func main() {
	if len(os.Args) < 3 {
		obs.Fatal("usage")
	}
	switch os.Args[1] {
	case "combos":
		want := map[string]bool{}
		err := obs.ReadLines(os.Args[2], func(line []byte) error {
			var c Combo
			if err := json.Unmarshal(line, &c); err != nil {
				return err
			}
			want[c.String()] = true
			return nil
		})
		if err != nil {
			obs.Fatal("%v", err)
		}
		got := map[string]bool{}
		classes := map[string]int{}
		for _, c := range negotiable() {
			got[c.String()] = true
			classes[c.Class]++
		}
		var missing, extra []string
		for k := range want {
			if !got[k] {
				missing = append(missing, k)
			}
		}
		for k := range got {
			if !want[k] {
				extra = append(extra, k)
			}
		}
		sort.Strings(missing)
		sort.Strings(extra)
		obs.Stat("negotiable", len(got))
		obs.Stat("classes", classes)
		obs.Stat("missing", missing)
		obs.Stat("extra", extra)
	case "replay-sched":
		var cases []SchedCase
		err := obs.ReadLines(os.Args[2], func(line []byte) error {
			var c SchedCase
			if err := json.Unmarshal(line, &c); err != nil {
				return err
			}
			cases = append(cases, c)
			return nil
		})
		if err != nil {
			obs.Fatal("%v", err)
		}
		mode := os.Args[3]
		combos := negotiable()
		byClass := map[string][]Combo{}
		for _, c := range combos {
			byClass[c.Class] = append(byClass[c.Class], c)
		}
		var runs []Run
		if mode == "long-quick" || mode == "long-all" {
			// long streams: one suite per record-protection class
			prefer := map[string]string{"tls13": "0x0304/0x1301/rsa", "cbc-explicit-iv": "0x0303/0x002f/rsa", "cbc-implicit-iv": "0x0301/0x002f/rsa",
				"aead-explicit-nonce": "0x0303/0xc02f/rsa", "aead-xor-nonce": "0x0303/0xcca8/rsa", "stream": "0x0303/0x0005/rsa"}
			for class, list := range byClass {
				if mode == "long-quick" && class != "tls13" && class != "cbc-explicit-iv" {
					continue
				}
				cb := list[0]
				for _, x := range list {
					if x.String() == prefer[class] {
						cb = x
					}
				}
				for _, cs := range cases {
					if mode == "long-all" {
						runs = append(runs, Run{Case: cs, Combo: cb, Dir: 0}, Run{Case: cs, Combo: cb, Dir: 1})
					} else {
						runs = append(runs, Run{Case: cs, Combo: cb, Dir: (cs.ID + int(obs.Seed())) % 2})
					}
				}
			}
			cases = cases[:0:0]
			for _, r := range runs {
				cases = append(cases, r.Case)
			}
		}
		for _, cs := range cases {
			if mode == "long-quick" || mode == "long-all" {
				break
			}
			for class, list := range byClass {
				if cs.Plan == "split" && class != "cbc-implicit-iv" {
					continue
				}
				if mode == "all" {
					for _, cb := range list {
						runs = append(runs, Run{Case: cs, Combo: cb, Dir: 0}, Run{Case: cs, Combo: cb, Dir: 1})
					}
				} else {
					cb := list[(cs.ID+int(obs.Seed()))%len(list)]
					runs = append(runs, Run{Case: cs, Combo: cb, Dir: (cs.ID + len(class) + int(obs.Seed())) % 2})
				}
			}
		}
		var mu sync.Mutex
		seen := map[string]bool{}
		stats := map[string]int{}
		perClass := map[string]int{}
		perCombo := map[string]int{}
		var hardErr error
		jobs := make(chan int)
		var wg sync.WaitGroup
		for w := 0; w < workers(); w++ {
			wg.Add(1)
			go func() {
				defer wg.Done()
				for i := range jobs {
					r := runs[i]
					fs, st, err := runSched(&r)
					mu.Lock()
					if err != nil {
						if hardErr == nil {
							hardErr = fmt.Errorf("case %d on %s dir %d: %v", r.Case.ID, r.Combo, r.Dir, err)
						}
						mu.Unlock()
						continue
					}
					stats["runs"]++
					if st.skipped != "" {
						stats["skipped"]++
						if stats["skipped"] <= 3 {
							fmt.Fprintln(os.Stderr, "skipped:", r.Combo, st.skipped)
						}
					} else {
						perClass[r.Combo.Class]++
						perCombo[r.Combo.String()]++
						if st.deliveredAll {
							stats["delivered_all_accepted"]++
						} else {
							stats["delivered_less_than_accepted"]++
						}
						if len(r.Case.Faults) > 0 {
							stats["with_faults"]++
						}
					}
					for _, f := range fs {
						sig := schedSig(&r, f)
						k, _ := json.Marshal(sig)
						if !seen[string(k)] {
							seen[string(k)] = true
							rr := r
							rr.Kind = f.kind
							obs.Emit(obs.Candidate{Sig: sig, What: fmt.Sprintf("%s, %s: %s", r.Combo, []string{"client->server", "server->client"}[r.Dir], f.what),
								Case: replayBody{Run: &rr}})
						}
					}
					mu.Unlock()
				}
			}()
		}
		for i := range runs {
			jobs <- i
		}
		close(jobs)
		wg.Wait()
		if hardErr != nil {
			obs.Fatal("%v", hardErr)
		}
		obs.Stat("cases", len(cases))
		obs.Stat("stats", stats)
		obs.Stat("per_class", perClass)
		obs.Stat("combos_exercised", len(perCombo))
		obs.Stat("combos_negotiable", len(combos))
	case "pad":
		n, bad := 0, 0
		seen := map[string]bool{}
		err := obs.ReadLines(os.Args[2], func(line []byte) error {
			var c PadCase
			if err := json.Unmarshal(line, &c); err != nil {
				return err
			}
			n++
			if f := runPad(&c); f != nil {
				bad++
				sig := map[string]any{"kind": "padding", "spec_good": c.Good == 255, "len_class": lenClass(len(c.Payload))}
				k, _ := json.Marshal(sig)
				if !seen[string(k)] {
					seen[string(k)] = true
					obs.Emit(obs.Candidate{Sig: sig, What: f.what, Case: replayBody{Pad: &c}})
				}
			}
			return nil
		})
		if err != nil {
			obs.Fatal("%v", err)
		}
		obs.Stat("cases", n)
	case "fmt":
		n, recs := 0, 0
		seen := map[string]bool{}
		err := obs.ReadLines(os.Args[2], func(line []byte) error {
			var c FmtCase
			if err := json.Unmarshal(line, &c); err != nil {
				return err
			}
			n++
			recs += len(c.Recs)
			for t := int64(0); t < 2; t++ {
				seed := obs.Seed()*1009 + int64(n)*7 + t
				f, err := runFmt(&c, seed)
				if err != nil {
					return fmt.Errorf("format case %d: %v", n, err)
				}
				if f != nil {
					sig := map[string]any{"kind": f.kind, "cls": c.RP.Cls, "ver": c.RP.Ver, "bc": c.RP.BC}
					k, _ := json.Marshal(sig)
					if !seen[string(k)] {
						seen[string(k)] = true
						cc := c
						cc.Kind, cc.Seed = f.kind, seed
						obs.Emit(obs.Candidate{Sig: sig, What: f.what, Case: replayBody{Fmt: &cc}})
					}
					break
				}
			}
			return nil
		})
		if err != nil {
			obs.Fatal("%v", err)
		}
		obs.Stat("cases", n)
		obs.Stat("records", recs)
	case "seqfmt":
		n, recs := 0, 0
		seen := map[string]bool{}
		err := obs.ReadLines(os.Args[2], func(line []byte) error {
			var c SeqFmtCase
			if err := json.Unmarshal(line, &c); err != nil {
				return err
			}
			n++
			recs += len(c.Recs)
			seed := obs.Seed()*1013 + int64(n)*11
			f, err := runSeqFmt(&c, seed)
			if err != nil {
				return fmt.Errorf("sequence-number case %d: %v", n, err)
			}
			if f != nil {
				sig := map[string]any{"kind": f.kind, "cls": c.RP.Cls}
				k, _ := json.Marshal(sig)
				if !seen[string(k)] {
					seen[string(k)] = true
					cc := c
					cc.Kind, cc.Seed = f.kind, seed
					obs.Emit(obs.Candidate{Sig: sig, What: f.what, Case: replayBody{SeqFmt: &cc}})
				}
			}
			return nil
		})
		if err != nil {
			obs.Fatal("%v", err)
		}
		obs.Stat("cases", n)
		obs.Stat("records", recs)
	case "record":
		count, _ := strconv.Atoi(os.Args[3])
		combos := negotiable()
		rng := rand.New(rand.NewSource(obs.Seed()))
		specs := make([]RecordedSpec, count)
		for i := range specs {
			specs[i] = randomSpec(rng, combos, i)
		}
		// the bulk-transfer class, always: default configuration (dynamic record sizing on), 32 KiB writes
		// totalling 128 KiB and one write of 256 KiB, no faults, one suite per record-protection class, both
		// directions - the size ramp of the first records and the 2^14 cap on every later one
		prefer := map[string]bool{"0x0304/0x1301/rsa": true, "0x0303/0x002f/rsa": true, "0x0301/0x002f/rsa": true,
			"0x0303/0xc02f/rsa": true, "0x0303/0xcca8/rsa": true, "0x0303/0x0005/rsa": true}
		for _, cb := range combos {
			if !prefer[cb.String()] {
				continue
			}
			for dir := 0; dir < 2; dir++ {
				for _, ws := range [][]int{{32768, 32768, 32768, 32768}, {262144}} {
					specs = append(specs, RecordedSpec{ID: len(specs), Bulk: true, Combo: cb, Dir: dir, Writes: ws, Faults: []Fault{},
						Mod: "mid", Seg: []string{"whole", "odd"}[dir], ReadSz: []int{16384, 70000}[dir], Seed: 4242 + len(specs)})
				}
			}
		}
		count = len(specs)
		events := make([][]map[string]any, count)
		var mu sync.Mutex
		var hardErr error
		jobs := make(chan int)
		var wg sync.WaitGroup
		for w := 0; w < workers(); w++ {
			wg.Add(1)
			go func() {
				defer wg.Done()
				for i := range jobs {
					ev, err := recordOne(&specs[i])
					mu.Lock()
					if err != nil && hardErr == nil {
						hardErr = fmt.Errorf("trace %d (%s): %v", i, specs[i].Combo, err)
					}
					events[i] = ev
					mu.Unlock()
				}
			}()
		}
		for i := range specs {
			jobs <- i
		}
		close(jobs)
		wg.Wait()
		if hardErr != nil {
			obs.Fatal("%v", hardErr)
		}
		w := obs.NewWriter(os.Args[2])
		ws := obs.NewWriter(os.Args[2] + ".specs")
		total := 0
		for i := range events {
			for _, e := range events[i] {
				w.Write(e)
				total++
			}
			ws.Write(specs[i])
		}
		w.Close()
		ws.Close()
		obs.Stat("traces", count)
		obs.Stat("events", total)
		obs.Stat("bulk_traces", bulkCount(specs))
	case "record-one":
		var b replayBody
		obs.ReadReplay(os.Args[2], &b)
		if b.Record == nil {
			obs.Fatal("not a recorded-execution replay file")
		}
		ev, err := recordOne(b.Record)
		if err != nil {
			obs.Fatal("%v", err)
		}
		w := obs.NewWriter(os.Args[3])
		for _, e := range ev {
			w.Write(e)
		}
		w.Close()
	case "replay":
		var b replayBody
		obs.ReadReplay(os.Args[2], &b)
		switch {
		case b.Run != nil:
			fs, _, err := runSched(b.Run)
			if err != nil {
				obs.Fatal("%v", err)
			}
			for _, f := range fs {
				if f.kind == b.Run.Kind {
					fmt.Println("reproduced:", f.what)
					os.Exit(1)
				}
			}
		case b.Pad != nil:
			if f := runPad(b.Pad); f != nil {
				fmt.Println("reproduced:", f.what)
				os.Exit(1)
			}
		case b.SeqFmt != nil:
			f, err := runSeqFmt(b.SeqFmt, b.SeqFmt.Seed)
			if err != nil {
				obs.Fatal("%v", err)
			}
			if f != nil && f.kind == b.SeqFmt.Kind {
				fmt.Println("reproduced:", f.what)
				os.Exit(1)
			}
		case b.Fmt != nil:
			f, err := runFmt(b.Fmt, b.Fmt.Seed)
			if err != nil {
				obs.Fatal("%v", err)
			}
			if f != nil && f.kind == b.Fmt.Kind {
				fmt.Println("reproduced:", f.what)
				os.Exit(1)
			}
		default:
			obs.Fatal("empty replay file")
		}
		fmt.Println("not reproduced")
	default:
		obs.Fatal("unknown command %q", os.Args[1])
	}
}

func bulkCount(specs []RecordedSpec) int {
	n := 0
	for _, s := range specs {
		if s.Bulk {
			n++
		}
	}
	return n
}

func lenClass(n int) string {
	switch {
	case n == 0:
		return "0"
	case n <= 4:
		return "1-4"
	case n <= 32:
		return "5-32"
	case n < 256:
		return "33-255"
	}
	return ">=256"
}

// ---- recorded random executions ---------------------------------------------------------------

// RecordedSpec fully determines one recorded execution (so that it can be re-run).
type RecordedSpec struct {
	ID     int     `json:"id"`
	Bulk   bool    `json:"bulk,omitempty"`
	Combo  Combo   `json:"combo"`
	Opts   Opts    `json:"opts"`
	Dir    int     `json:"dir"`
	Writes []int   `json:"writes"`
	Faults []Fault `json:"faults"` // positions refer to the records actually produced; inapplicable ones are skipped
	Mod    string  `json:"mod"`
	Seg    string  `json:"seg"`
	ReadSz int     `json:"readsz"`
	Seed   int     `json:"seed"`
}

var modClasses = []string{"type", "vers", "len-up", "len-down", "first", "mid", "last", "dropbyte", "addbyte", "cut-header", "cut-body"}
var segClasses = []string{"whole", "bytes", "records", "halves", "odd"}

func randomSpec(rng *rand.Rand, combos []Combo, i int) RecordedSpec {
	s := RecordedSpec{ID: i, Combo: combos[(i+rng.Intn(3))%len(combos)], Dir: rng.Intn(2), Seed: rng.Intn(1 << 30),
		Opts: Opts{NoDynamic: rng.Intn(3) == 0, NoSplit: rng.Intn(3) == 0},
		Mod:  modClasses[rng.Intn(len(modClasses))], Seg: segClasses[rng.Intn(len(segClasses))],
		ReadSz: []int{1, 7, 100, 1500, 16384, 70000}[rng.Intn(6)]}
	if s.ReadSz == 1 {
		s.ReadSz = 3 // single-byte reads of large streams are slow and add nothing over the schedule replay
	}
	sizes := []int{1, 2, 3, 100, 1199, 1200, 1201, 5000, 16383, 16384, 16385, 32768, 40000, 100000}
	budget := 220000
	for k := 1 + rng.Intn(6); k > 0 && budget > 0; k-- {
		n := sizes[rng.Intn(len(sizes))]
		if rng.Intn(3) == 0 {
			n = 1 + rng.Intn(20000)
		}
		if n > budget {
			n = budget
		}
		budget -= n
		s.Writes = append(s.Writes, n)
	}
	kinds := []string{"modify", "drop", "dup", "swap"}
	for k := rng.Intn(4); k > 0; k-- {
		s.Faults = append(s.Faults, Fault{Kind: kinds[rng.Intn(4)], I: 1 + rng.Intn(12), J: 1 + rng.Intn(12)})
	}
	return s
}

// recordOne runs the execution and returns its events for Trace_TLSRecord.
func recordOne(s *RecordedSpec) ([]map[string]any, error) {
	ev := []map[string]any{{"ev": "reset", "id": s.ID}}
	p, err := connect(s.Combo, s.Opts, uint64(s.Seed))
	if err != nil {
		return nil, fmt.Errorf("handshake failed: %v", err)
	}
	defer p.closeAll()
	sender, receiver := p.ends(s.Dir)
	p.box.Capture(s.Dir)
	total := 0
	for _, n := range s.Writes {
		total += n
	}
	data := pattern(total, s.Seed)
	off := 0
	var all [][]byte
	for _, n := range s.Writes {
		m, err := sender.Write(data[off : off+n])
		if err != nil || m != n {
			return nil, fmt.Errorf("sender.Write(%d) = %d, %v", n, m, err)
		}
		off += n
		recs, err := splitRecords(p.box.Take(s.Dir))
		if err != nil {
			return nil, err
		}
		var ranges [][]int
		for _, r := range recs {
			lo, hi := plainRange(s.Combo, len(r)-5)
			ranges = append(ranges, []int{lo, hi})
		}
		all = append(all, recs...)
		ev = append(ev, map[string]any{"ev": "write", "n": n, "recs": ranges})
	}
	sender.Close()
	recs, err := splitRecords(p.box.Take(s.Dir))
	if err != nil {
		return nil, err
	}
	if len(recs) != 1 {
		return nil, fmt.Errorf("Close produced %d records", len(recs))
	}
	all = append(all, recs...)
	ev = append(ev, map[string]any{"ev": "close"})
	wire := all
	for ord, f := range s.Faults {
		// make the random fault applicable to the current wire (or skip it)
		n := len(wire)
		if n == 0 {
			break
		}
		g := Fault{Kind: f.Kind, I: (f.I-1)%n + 1, J: (f.J-1)%n + 1}
		switch g.Kind {
		case "modify", "drop":
			g.J = 0
		case "dup":
			if g.J < g.I {
				g.J = g.I
			}
		case "swap":
			if g.I == g.J {
				continue
			}
			if g.I > g.J {
				g.I, g.J = g.J, g.I
			}
		}
		w2, err := applyFaults(wire, []Fault{g}, s.Mod, s.Seed, ord)
		if err != nil {
			return nil, err
		}
		wire = w2
		ev = append(ev, map[string]any{"ev": "fault", "kind": g.Kind, "i": g.I, "j": g.J})
	}
	for _, seg := range segments(wire, s.Seg, s.Seed) {
		p.box.Inject(s.Dir, seg)
	}
	p.box.CloseDir(s.Dir)
	var got []byte
	var rerr error
	o := obs.Guard(300*time.Second, func() { got, rerr = readAll(receiver, s.ReadSz) })
	if o.Timeout {
		return nil, fmt.Errorf("receiver did not return")
	}
	if o.Panic != "" {
		ev = append(ev, map[string]any{"ev": "end", "total": len(got), "match": false, "end": "panic: " + o.Panic})
		return ev, nil
	}
	match := len(got) <= len(data) && bytes.Equal(got, data[:len(got)])
	ev = append(ev, map[string]any{"ev": "end", "total": len(got), "match": match, "end": endClass(rerr)})
	_ = tls.VersionTLS13
	return ev, nil
}
