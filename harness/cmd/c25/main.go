// c25: conformance harness binding TLSRecord.tla to zcrypto's record layer.
package main

import (
	"fmt"
	"os"
	"sort"
	"time"

	"verifharness/lib/obs"
)

func main() {
	if len(os.Args) < 2 {
		obs.Fatal("usage")
	}
	switch os.Args[1] {
	case "probe":
		t0 := time.Now()
		neg := map[string]int{}
		var ok []Combo
		for _, c := range allCombos() {
			p, err := connect(c, Opts{}, 1)
			if err != nil {
				continue
			}
			p.closeAll()
			ok = append(ok, c)
			neg[c.Class]++
		}
		sort.Slice(ok, func(i, j int) bool { return ok[i].String() < ok[j].String() })
		for _, c := range ok {
			fmt.Println("NEG", c, c.Class)
		}
		obs.Stat("negotiable", len(ok))
		obs.Stat("classes", neg)
		obs.Stat("probe_ms", time.Since(t0).Milliseconds())
	default:
		obs.Fatal("unknown command %q", os.Args[1])
	}
}
