package main

import (
	"bytes"
	"encoding/binary"
	"fmt"
	"io"
	"os"
	"time"

	"github.com/zmap/zcrypto/tls"
	"verifharness/lib/obs"
)

// Fault is a network fault of TLSRecord.tla (positions are 1-based on the records in flight).
type Fault struct {
	Kind string `json:"kind"`
	I    int    `json:"i"`
	J    int    `json:"j"`
}

// SchedCase is one TLC-generated fault schedule with the demanded outcome.
type SchedCase struct {
	ID       int      `json:"id"`
	K        int      `json:"K"`
	Plan     string   `json:"plan"`
	Writes   [][]int  `json:"writes"`
	Faults   []Fault  `json:"faults"`
	Mod      string   `json:"mod"`
	Seg      string   `json:"seg"`
	ReadSz   int      `json:"readsz"`
	Lens     []int    `json:"lens"`
	Bytes    int      `json:"bytes"`
	Accepted int      `json:"accepted"`
	Ends     []string `json:"ends"`
	Total    int      `json:"total"`
}

// Run = a case on a concrete combination (replay files carry this).
type Run struct {
	Case  SchedCase `json:"case"`
	Combo Combo     `json:"combo"`
	Dir   int       `json:"dir"`
	Kind  string    `json:"kind,omitempty"`
}

func pattern(n int, seed int) []byte {
	b := make([]byte, n)
	x := uint32(seed*2654435761 + 12345)
	for i := range b {
		x = x*1664525 + 1013904223
		b[i] = byte(x >> 24)
	}
	return b
}

// splitRecords cuts a captured byte stream into TLS records (header + fragment).
func splitRecords(b []byte) ([][]byte, error) {
	var recs [][]byte
	for len(b) > 0 {
		if len(b) < 5 {
			return nil, fmt.Errorf("trailing %d bytes are not a record header", len(b))
		}
		n := int(binary.BigEndian.Uint16(b[3:5]))
		if len(b) < 5+n {
			return nil, fmt.Errorf("record of %d bytes truncated in the capture", n)
		}
		recs = append(recs, append([]byte(nil), b[:5+n]...))
		b = b[5+n:]
	}
	return recs, nil
}

// plainRange: the plaintext lengths compatible with a protected fragment of n bytes.
func plainRange(c Combo, n int) (lo, hi int) {
	if c.Ver == tls.VersionTLS13 {
		return 0, n - 17 // AEAD tag 16 + inner content type; RFC 8446 5.4 lets a sender add any number of padding zeros
	}
	s, _ := tls.VerifSuiteByID(c.Suite)
	switch s.Kind {
	case "stream":
		return n - s.MacLen, n - s.MacLen
	case "aead":
		if s.IVLen == 4 {
			return n - 24, n - 24
		}
		return n - 16, n - 16
	default: // cbc
		bs := 16
		if s.KeyLen == 24 {
			bs = 8
		}
		n -= s.MacLen
		if c.Ver >= tls.VersionTLS11 {
			n -= bs
		}
		return n - bs, n - 1
	}
}

// modify applies one of the byte-level modification classes to a record.
// ord = ordinal of the fault in its schedule: a second modification never undoes the first.
func modify(rec []byte, class string, salt, ord int) []byte {
	r := append([]byte(nil), rec...)
	body := len(r) - 5
	switch class {
	case "type":
		r[0] ^= 1 << uint(ord%3)
	case "vers":
		r[2] ^= 1 << uint(ord%3)
	case "len-up":
		n := int(binary.BigEndian.Uint16(r[3:5])) + 1 + salt%7
		binary.BigEndian.PutUint16(r[3:5], uint16(n))
	case "len-down":
		n := int(binary.BigEndian.Uint16(r[3:5]))
		if n > 0 {
			n--
		}
		binary.BigEndian.PutUint16(r[3:5], uint16(n))
	case "first":
		if body > 0 {
			r[5] ^= 0x80 >> uint(ord%3)
		} else {
			r[0] ^= 1
		}
	case "mid":
		if body > 0 {
			r[5+body/2] ^= byte(1 << uint((salt+ord)%8))
		} else {
			r[0] ^= 1
		}
	case "last":
		r[len(r)-1] ^= 1 << uint(ord%3)
	case "dropbyte":
		// the byte that slides into the record's declared length is the next record's content type:
		// make sure the declared region really changes (it would not if every byte from p on equalled it)
		if body > 0 {
			p := 5 + (salt % body)
			same := true
			for k := p; k < len(r)-1; k++ {
				if r[k] != r[k+1] {
					same = false
				}
			}
			if same && r[len(r)-1] >= 20 && r[len(r)-1] <= 23 {
				r[0] ^= 1 // the slid-in byte would restore the fragment: change the header as well
			}
			r = append(r[:p], r[p+1:]...)
		} else {
			r[0] ^= 1
		}
	case "cut-header":
		r = r[:3] // the record ends inside its header (the rest of the stream moves up)
	case "cut-body":
		if body > 1 {
			r = r[:5+body/2]
		} else {
			r = r[:4]
		}
	case "addbyte":
		// a byte inserted inside the declared length, different from the byte it displaces
		if body > 0 {
			p := 5 + (salt % body)
			r = append(r[:p], append([]byte{^r[p]}, r[p:]...)...)
		} else {
			r[0] ^= 1
		}
	default:
		r[len(r)-1] ^= 1
	}
	return r
}

func applyFaults(recs [][]byte, fs []Fault, modClass string, salt int, ordBase int) ([][]byte, error) {
	w := append([][]byte(nil), recs...)
	for ord, f := range fs {
		switch f.Kind {
		case "modify":
			if f.I < 1 || f.I > len(w) {
				return nil, fmt.Errorf("fault %+v not applicable to %d records", f, len(w))
			}
			w[f.I-1] = modify(w[f.I-1], modClass, salt, ord+ordBase)
		case "drop":
			if f.I < 1 || f.I > len(w) {
				return nil, fmt.Errorf("fault %+v not applicable to %d records", f, len(w))
			}
			w = append(w[:f.I-1:f.I-1], w[f.I:]...)
		case "dup":
			if f.I < 1 || f.I > len(w) || f.J < f.I || f.J > len(w) {
				return nil, fmt.Errorf("fault %+v not applicable to %d records", f, len(w))
			}
			x := w[f.I-1]
			nw := append([][]byte(nil), w[:f.J]...)
			nw = append(nw, x)
			w = append(nw, w[f.J:]...)
		case "swap":
			if f.I < 1 || f.J > len(w) || f.I >= f.J {
				return nil, fmt.Errorf("fault %+v not applicable to %d records", f, len(w))
			}
			w[f.I-1], w[f.J-1] = w[f.J-1], w[f.I-1]
		default:
			return nil, fmt.Errorf("unknown fault %q", f.Kind)
		}
	}
	return w, nil
}

// segments cuts the byte stream TCP-style.
func segments(recs [][]byte, class string, salt int) [][]byte {
	var all []byte
	for _, r := range recs {
		all = append(all, r...)
	}
	var segs [][]byte
	switch class {
	case "bytes":
		n := 64
		if n > len(all) {
			n = len(all)
		}
		for i := 0; i < n; i++ {
			segs = append(segs, all[i:i+1])
		}
		segs = append(segs, all[n:])
	case "records":
		segs = recs
	case "halves":
		for _, r := range recs {
			h := len(r) / 2
			segs = append(segs, r[:h], r[h:])
		}
	case "odd":
		sizes := []int{7, 13, 1, 1000, 3, 4096, 5}
		i := salt
		for len(all) > 0 {
			n := sizes[i%len(sizes)]
			i++
			if n > len(all) {
				n = len(all)
			}
			segs = append(segs, all[:n])
			all = all[n:]
		}
	default:
		segs = [][]byte{all}
	}
	return segs
}

type finding struct {
	kind, what string
}

type runStats struct {
	deliveredAll bool // the receiver delivered every accepted byte
	skipped      string
}

func optsFor(plan string) Opts {
	if plan == "split" {
		return Opts{NoDynamic: true, NoSplit: false}
	}
	return Opts{NoDynamic: true, NoSplit: true}
}

// endClass maps the receiver's final error to the abstract outcome.
func endClass(err error) string {
	if err == io.EOF {
		return "eof"
	}
	return "error"
}

// runSched executes one schedule on one combination; err != nil is a harness problem.
func runSched(r *Run) ([]finding, runStats, error) {
	c := &r.Case
	var st runStats
	p, err := connect(r.Combo, optsFor(c.Plan), uint64(c.ID)*131+uint64(r.Dir))
	if err != nil {
		return nil, st, fmt.Errorf("handshake %s failed: %v", r.Combo, err)
	}
	defer p.closeAll()
	sender, receiver := p.ends(r.Dir)
	p.box.Capture(r.Dir)
	data := pattern(c.Total, c.ID)
	off := 0
	for _, w := range c.Writes {
		n := 0
		for _, l := range w {
			n += l
		}
		m, err := sender.Write(data[off : off+n])
		if err != nil || m != n {
			return nil, st, fmt.Errorf("sender.Write(%d) = %d, %v", n, m, err)
		}
		off += n
	}
	sender.Close()
	recs, err := splitRecords(p.box.Take(r.Dir))
	if err != nil {
		return nil, st, err
	}
	var fs []finding
	// the records the sender really produced vs the plan of the case
	if len(recs) != len(c.Lens) {
		st.skipped = fmt.Sprintf("plan %s produced %d records, case has %d", c.Plan, len(recs), len(c.Lens))
		return nil, st, nil
	}
	for i, rec := range recs {
		lo, hi := plainRange(r.Combo, len(rec)-5)
		if lo > tls.VerifMaxPlaintext {
			fs = append(fs, finding{"oversize-record", fmt.Sprintf("record %d carries at least %d plaintext bytes (> 2^14)", i+1, lo)})
		}
		want := c.Lens[i]
		if i == len(recs)-1 {
			want = 2 // the closing alert: level and description, no application bytes
		}
		if want < lo || want > hi {
			st.skipped = fmt.Sprintf("plan %s: record %d has %d..%d plaintext bytes, case has %d", c.Plan, i+1, lo, hi, c.Lens[i])
			return fs, st, nil
		}
	}
	wire, err := applyFaults(recs, c.Faults, c.Mod, c.ID, 0)
	if err != nil {
		return nil, st, err
	}
	for _, s := range segments(wire, c.Seg, c.ID) {
		p.box.Inject(r.Dir, s)
	}
	p.box.CloseDir(r.Dir)
	var got []byte
	var rerr error
	o := obs.Guard(120*time.Second, func() { got, rerr = readAll(receiver, c.ReadSz) })
	if o.Timeout {
		return nil, st, fmt.Errorf("receiver did not return")
	}
	if o.Panic != "" {
		return append(fs, finding{"panic", "the receiver panicked: " + o.Panic}), st, nil
	}
	// judge against the outcome TLC computed
	if len(got) > len(data) || !bytes.Equal(got, data[:len(got)]) {
		fs = append(fs, finding{"corrupt-data", fmt.Sprintf("the receiver delivered %d bytes that are not a prefix of the %d bytes written", len(got), len(data))})
	} else if len(got) > c.Bytes {
		fs = append(fs, finding{"delivered-beyond", fmt.Sprintf("the receiver delivered %d bytes although only the first %d precede the first faulted record", len(got), c.Bytes)})
	}
	st.deliveredAll = len(got) == c.Bytes
	if !st.deliveredAll && len(fs) == 0 {
		fmt.Fprintf(os.Stderr, "note: case %d on %s dir %d delivered %d of the %d accepted bytes (end %v)\n", c.ID, r.Combo, r.Dir, len(got), c.Bytes, rerr)
	}
	end := endClass(rerr)
	okEnd := false
	for _, e := range c.Ends {
		if e == end {
			okEnd = true
		}
	}
	if !okEnd {
		if end == "eof" {
			fs = append(fs, finding{"silent-truncation", fmt.Sprintf("Read ended with io.EOF after %d of %d bytes although a record was %s", len(got), len(data), describe(c.Faults))})
		} else {
			fs = append(fs, finding{"spurious-error", fmt.Sprintf("Read failed with %q on an untouched record stream", rerr)})
		}
	}
	return fs, st, nil
}

func describe(fs []Fault) string {
	if len(fs) == 0 {
		return "untouched"
	}
	s := ""
	for i, f := range fs {
		if i > 0 {
			s += ", then "
		}
		switch f.Kind {
		case "modify":
			s += fmt.Sprintf("modified (#%d)", f.I)
		case "drop":
			s += fmt.Sprintf("dropped (#%d)", f.I)
		case "dup":
			s += fmt.Sprintf("duplicated (#%d after #%d)", f.I, f.J)
		case "swap":
			s += fmt.Sprintf("reordered (#%d <-> #%d)", f.I, f.J)
		}
	}
	return s
}

func schedSig(r *Run, f finding) map[string]any {
	first, mod := "none", ""
	if len(r.Case.Faults) > 0 {
		first = r.Case.Faults[0].Kind
	}
	for _, x := range r.Case.Faults {
		if x.Kind == "modify" {
			mod = r.Case.Mod
		}
	}
	return map[string]any{"kind": f.kind, "class": r.Combo.Class, "fault": first, "mod": mod, "plan": r.Case.Plan}
}
