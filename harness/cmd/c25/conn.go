package main

import (
	"crypto"
	stdrsa "crypto/rsa"
	"fmt"
	"io"
	"math/big"
	"sync"
	"time"

	zrsa "github.com/zmap/zcrypto/rsa"
	"github.com/zmap/zcrypto/tls"
	"verifharness/lib/memnet"
	"verifharness/lib/pki"
)

// Combo is one (version, suite, server key type) the two zcrypto endpoints are asked to negotiate.
type Combo struct {
	Ver   uint16 `json:"ver"`
	Suite uint16 `json:"suite"`
	Key   string `json:"key"`   // "rsa" | "ecdsa"
	Class string `json:"class"` // cipher class, see classOf
}

func (c Combo) String() string { return fmt.Sprintf("%#04x/%#04x/%s", c.Ver, c.Suite, c.Key) }

// classOf: the record protection class of a combo (TLSRecord.tla's cls plus the nonce style).
func classOf(ver uint16, kind string, ivLen int) string {
	switch {
	case ver == tls.VersionTLS13:
		return "tls13"
	case kind == "stream":
		return "stream"
	case kind == "cbc" && ver == tls.VersionTLS10:
		return "cbc-implicit-iv"
	case kind == "cbc":
		return "cbc-explicit-iv"
	case kind == "aead" && ivLen == 4:
		return "aead-explicit-nonce"
	case kind == "aead":
		return "aead-xor-nonce"
	}
	return "?"
}

var (
	certOnce sync.Once
	certs    map[string]tls.Certificate
)

func serverCert(key string) tls.Certificate {
	certOnce.Do(func() {
		certs = map[string]tls.Certificate{}
		for name, kid := range map[string]string{"rsa": "Rc25", "ecdsa": "Pc25"} {
			der := pki.MustBuild(pki.Cert{ID: "c25-" + name, Subj: "c25srv", Key: kid, Iss: "c25srv", SKey: kid,
				NB: 0, NA: 40 * 365 * 86400, DNS: []string{"c25.test"}, KU: 1 | 4, EKU: []string{"server"}})
			var priv crypto.PrivateKey = pki.Key(kid)
			if k, ok := priv.(*stdrsa.PrivateKey); ok {
				// zcrypto's tls package works with its own rsa key types
				z := &zrsa.PrivateKey{PublicKey: zrsa.PublicKey{N: k.N, E: big.NewInt(int64(k.E))}, D: k.D, Primes: k.Primes}
				z.Precompute()
				priv = z
			}
			certs[name] = tls.Certificate{Certificate: [][]byte{der}, PrivateKey: priv}
		}
	})
	return certs[key]
}

// allCombos lists every (version, suite, key) candidate from the real suite tables.
func allCombos() []Combo {
	var res []Combo
	for _, s := range tls.VerifSuites() {
		for _, v := range []uint16{tls.VersionTLS10, tls.VersionTLS11, tls.VersionTLS12} {
			for _, k := range []string{"rsa", "ecdsa"} {
				res = append(res, Combo{Ver: v, Suite: s.ID, Key: k, Class: classOf(v, s.Kind, s.IVLen)})
			}
		}
	}
	for _, s := range tls.VerifSuitesTLS13() {
		for _, k := range []string{"rsa", "ecdsa"} {
			res = append(res, Combo{Ver: tls.VersionTLS13, Suite: s.ID, Key: k, Class: "tls13"})
		}
	}
	return res
}

// Opts: the knobs of one connection.
type Opts struct {
	NoDynamic bool // Config.DynamicRecordSizingDisabled
	NoSplit   bool // Config.DisableTLS10BEASTMitigation
}

type pair struct {
	client, server *tls.Conn
	box            *memnet.Box
	cEnd, sEnd     *memnet.Conn
}

type detRand struct{ n uint64 }

func (r *detRand) Read(p []byte) (int, error) {
	for i := range p {
		r.n = r.n*6364136223846793005 + 1442695040888963407
		p[i] = byte(r.n >> 33)
	}
	return len(p), nil
}

// connect runs a real handshake between two zcrypto endpoints over the in-memory transport.
func connect(c Combo, o Opts, seed uint64) (*pair, error) {
	cEnd, sEnd, box := memnet.New()
	now := func() time.Time { return pki.At(86400 * 365) }
	ccfg := &tls.Config{InsecureSkipVerify: true, ServerName: "c25.test", MinVersion: c.Ver, MaxVersion: c.Ver,
		CipherSuites: []uint16{c.Suite}, Time: now, Rand: &detRand{n: seed*2 + 1},
		DynamicRecordSizingDisabled: o.NoDynamic, DisableTLS10BEASTMitigation: o.NoSplit}
	scfg := &tls.Config{Certificates: []tls.Certificate{serverCert(c.Key)}, MinVersion: c.Ver, MaxVersion: c.Ver,
		CipherSuites: []uint16{c.Suite}, Time: now, Rand: &detRand{n: seed*2 + 2},
		DynamicRecordSizingDisabled: o.NoDynamic, DisableTLS10BEASTMitigation: o.NoSplit}
	if c.Ver != tls.VersionTLS13 {
		ccfg.ForceSuites = false
	}
	p := &pair{client: tls.Client(cEnd, ccfg), server: tls.Server(sEnd, scfg), box: box, cEnd: cEnd, sEnd: sEnd}
	errs := make(chan error, 2)
	go func() { errs <- p.server.Handshake() }()
	go func() { errs <- p.client.Handshake() }()
	var first error
	for i := 0; i < 2; i++ {
		select {
		case err := <-errs:
			if err != nil && first == nil {
				first = err
				// unblock the other side
				cEnd.Close()
				sEnd.Close()
			}
		case <-time.After(60 * time.Second):
			cEnd.Close()
			sEnd.Close()
			return nil, fmt.Errorf("handshake timed out")
		}
	}
	if first != nil {
		return nil, first
	}
	cs := p.client.ConnectionState()
	if cs.Version != c.Ver || cs.CipherSuite != c.Suite {
		return nil, fmt.Errorf("negotiated %#04x/%#04x instead of %s", cs.Version, cs.CipherSuite, c)
	}
	return p, nil
}

func (p *pair) ends(dir int) (sender, receiver *tls.Conn) {
	if dir == 0 {
		return p.client, p.server
	}
	return p.server, p.client
}

func (p *pair) closeAll() {
	p.cEnd.Close()
	p.sEnd.Close()
}

// readAll reads from the receiver with a fixed buffer size until an error.
func readAll(r io.Reader, bufSize int) ([]byte, error) {
	var got []byte
	buf := make([]byte, bufSize)
	for {
		n, err := r.Read(buf)
		got = append(got, buf[:n]...)
		if err != nil {
			return got, err
		}
	}
}
