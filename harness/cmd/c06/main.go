// c06: conformance harness binding the metadata map of Issuance.tla (MetaTerms, MetaOK, PairOK)
// to x509.ParseCertificate.
//
//	c06 pairs <terms.json> <ctcases.ndjson> <out.ndjson>   TLC-generated CT placement cases -> pair observations
//	c06 corpus <terms.json> <out.ndjson> <n>               created + mutated + repository certificates -> observations
//	c06 one <terms.json> <replay.json> <out.ndjson>        re-observe one case / one certificate
//
// The terms come from TLC (iss_meta_terms.json = MetaTerms); they are interpreted with the
// standard library only.  Every verdict is TLC's (Trace_Issuance, kinds "meta"/"metapair").
package main

import (
	"bytes"
	"encoding/hex"
	"encoding/json"
	"encoding/pem"
	"math/rand"
	"os"
	"path/filepath"
	"sort"
	"strconv"

	"verifharness/lib/iss"
	"verifharness/lib/obs"
)

func loadTerms(path string) map[string][]iss.Term {
	b, err := os.ReadFile(path)
	if err != nil {
		obs.Fatal("%v", err)
	}
	var t map[string][]iss.Term
	if err := json.Unmarshal(b, &t); err != nil {
		obs.Fatal("terms: %v", err)
	}
	if len(t) < 10 {
		obs.Fatal("terms: only %d metadata fields", len(t))
	}
	return t
}

var kindOID = map[string]string{"ku": "2.5.29.15", "bc": "2.5.29.19", "san": "2.5.29.17", "skid": "2.5.29.14",
	"custom": "1.3.6.1.4.1.99999.6", "poison": "1.3.6.1.4.1.11129.2.4.3", "sct": "1.3.6.1.4.1.11129.2.4.2", "sct0": "1.3.6.1.4.1.11129.2.4.2",
	"poisonnc": "1.3.6.1.4.1.11129.2.4.3", "sctc": "1.3.6.1.4.1.11129.2.4.2"}

// pairObs builds the two certificates of a CT case and observes them.
func pairObs(terms map[string][]iss.Term, c iss.CTCase, serial int64) map[string]any {
	base, ct, err := iss.BuildCTPair(c, serial)
	if err != nil {
		obs.Fatal("building CT case %v: %v", c, err)
	}
	ob, pb, why := iss.MetaObs(base, true, terms)
	if ob == nil {
		obs.Fatal("CT case %v: base certificate not accepted: %s", c, why)
	}
	oc, pc, why := iss.MetaObs(ct, true, terms)
	if oc == nil {
		return map[string]any{"c": c, "rejected": why, "der": hex.EncodeToString(ct)}
	}
	// concretisation check: the real extension lists are the abstract ones
	check := func(kinds []string, got []string) {
		if len(kinds) != len(got) {
			obs.Fatal("CT case %v: built %v", c, got)
		}
		for i, k := range kinds {
			if kindOID[k] != got[i] {
				obs.Fatal("CT case %v: built %v", c, got)
			}
		}
	}
	oids := func(der []byte) []string {
		s, err := iss.Slice(der)
		if err != nil {
			obs.Fatal("slice: %v", err)
		}
		return s.ExtOIDs()
	}
	check(c.Base, oids(base))
	check(c.CT, oids(ct))
	wantOwn := map[string]string{"self": "yes", "selfissued-bad": "no", "issued": "no"}[c.Sign]
	if ob["ownSigVerifies"] != wantOwn || oc["ownSigVerifies"] != wantOwn || ob["issuerEqSubject"] != (c.Sign != "issued") {
		obs.Fatal("CT case %v: construction does not match (own signature %v/%v)", c, ob["ownSigVerifies"], oc["ownSigVerifies"])
	}
	return map[string]any{"c": c, "base": ob, "ct": oc, "noctEqual": pb.FingerprintNoCT.Equal(pc.FingerprintNoCT)}
}

// relObs builds the certificate of an issuer/subject relation case and observes it; the case is
// re-derived from the real certificate (raw names re-read by the independent slicer, own-key
// signature by the standard library) - a mismatch is a machinery problem.
func relObs(terms map[string][]iss.Term, c iss.RelCase) map[string]any {
	der, err := iss.BuildRelCert(c)
	if err != nil {
		obs.Fatal("building relation case %v: %v", c, err)
	}
	o, _, why := iss.MetaObs(der, true, terms)
	if o == nil {
		obs.Fatal("relation case %v: certificate not accepted: %s", c, why)
	}
	s, err := iss.Slice(der)
	if err != nil {
		obs.Fatal("slice: %v", err)
	}
	wantS, wantI, _ := iss.RelNames(c.Rel)
	if !bytes.Equal(s.Parts["subject"], wantS) || !bytes.Equal(s.Parts["issuer"], wantI) {
		obs.Fatal("relation case %v: the certificate does not carry the names supplied", c)
	}
	if o["issuerEqSubject"] != (c.Rel == "identical") || (o["ownSigVerifies"] == "yes") != c.Own {
		obs.Fatal("relation case %v: built issuerEqSubject=%v ownSig=%v", c, o["issuerEqSubject"], o["ownSigVerifies"])
	}
	return map[string]any{"c": c, "o": o, "der": hex.EncodeToString(der)}
}

func main() {
	if len(os.Args) < 4 {
		obs.Fatal("usage")
	}
	terms := loadTerms(os.Args[2])
	switch os.Args[1] {
	case "pairs":
		w := obs.NewWriter(os.Args[4])
		n, rejected := 0, 0
		err := obs.ReadLines(os.Args[3], func(line []byte) error {
			var c iss.CTCase
			if err := json.Unmarshal(line, &c); err != nil {
				return err
			}
			n++
			o := pairObs(terms, c, int64(1000+n))
			if _, bad := o["rejected"]; bad {
				rejected++
				return nil
			}
			w.Write(o)
			return nil
		})
		if err != nil {
			obs.Fatal("%v", err)
		}
		w.Close()
		obs.Stat("cases", n)
		obs.Stat("rejected", rejected)
	case "rels":
		w := obs.NewWriter(os.Args[4])
		n := 0
		err := obs.ReadLines(os.Args[3], func(line []byte) error {
			var c iss.RelCase
			if err := json.Unmarshal(line, &c); err != nil {
				return err
			}
			n++
			w.Write(relObs(terms, c))
			return nil
		})
		if err != nil {
			obs.Fatal("%v", err)
		}
		w.Close()
		obs.Stat("cases", n)
	case "corpus":
		cnt, _ := strconv.Atoi(os.Args[4])
		w := obs.NewWriter(os.Args[3])
		rng := rand.New(rand.NewSource(obs.Seed()))
		created, mutated, mutAccepted, repo, repoAccepted, sliceFail := 0, 0, 0, 0, 0, 0
		self, verdicts := 0, map[string]int{}
		log := func(der []byte, canonical bool, src string) bool {
			o, _, why := iss.MetaObs(der, canonical, terms)
			if o == nil {
				if len(why) > 6 && why[:6] == "slice:" {
					sliceFail++
				}
				return false
			}
			o["src"] = src
			o["der"] = hex.EncodeToString(der)
			if o["selfSigned"].(bool) {
				self++
			}
			verdicts[o["ownSigVerifies"].(string)]++
			w.Write(o)
			return true
		}
		gen := iss.GenCertTemplate()
		for i := 0; i < cnt; i++ {
			t := gen.Example(int(obs.Seed())*7919 + i)
			is, err := iss.RunCert(t)
			if err != nil {
				obs.Fatal("concretisation: %v", err)
			}
			if is.Parsed == nil {
				continue
			}
			created++
			log(is.DER, true, "created")
			// seeded mutations of the accepted certificate: byte flips anywhere, and flips aimed at
			// the issuer / subject / signature regions
			for m := 0; m < 6; m++ {
				d := append([]byte(nil), is.DER...)
				k := 1 + rng.Intn(2)
				for j := 0; j < k; j++ {
					pos := rng.Intn(len(d))
					if m >= 3 { // aim at the tail (signature) or at the names
						pos = len(d) - 1 - rng.Intn(40)
					}
					d[pos] ^= byte(1 << uint(rng.Intn(8)))
				}
				mutated++
				if log(d, false, "mutated") {
					mutAccepted++
				}
			}
		}
		// certificates shipped with the repository
		root := os.Getenv("VERIF_REPO")
		if root == "" {
			root = "/repo"
		}
		var files []string
		for _, pat := range []string{"x509/testdata/*", "x509/testdata/*/*", "verifier/testdata/*", "data/test/certificates/*", "x509/test-dir/*"} {
			m, _ := filepath.Glob(filepath.Join(root, pat))
			files = append(files, m...)
		}
		sort.Strings(files)
		for _, f := range files {
			b, err := os.ReadFile(f)
			if err != nil || len(b) > 1<<20 {
				continue
			}
			for {
				var blk *pem.Block
				blk, b = pem.Decode(b)
				if blk == nil {
					break
				}
				if blk.Type != "CERTIFICATE" {
					continue
				}
				repo++
				if log(blk.Bytes, false, "repo:"+filepath.Base(f)) {
					repoAccepted++
				}
			}
		}
		w.Close()
		obs.Stat("created", created)
		obs.Stat("mutated", mutated)
		obs.Stat("mutated_accepted", mutAccepted)
		obs.Stat("repo_certs", repo)
		obs.Stat("repo_accepted", repoAccepted)
		obs.Stat("slice_failed", sliceFail)
		obs.Stat("self_signed", self)
		obs.Stat("own_signature", verdicts)
		obs.Stat("records", w.N)
	case "one":
		var c struct {
			C   *iss.CTCase  `json:"c"`
			Rel *iss.RelCase `json:"relcase"`
			DER string       `json:"der"`
			Can bool         `json:"canonical"`
		}
		obs.ReadReplay(os.Args[3], &c)
		w := obs.NewWriter(os.Args[4])
		if c.Rel != nil {
			w.Write(relObs(terms, *c.Rel))
		} else if c.C != nil {
			w.Write(pairObs(terms, *c.C, 4242))
		} else {
			der, err := hex.DecodeString(c.DER)
			if err != nil {
				obs.Fatal("replay der: %v", err)
			}
			o, _, why := iss.MetaObs(der, c.Can, terms)
			if o == nil {
				obs.Fatal("certificate of the replay file is no longer accepted: %s", why)
			}
			w.Write(o)
		}
		w.Close()
	default:
		obs.Fatal("unknown command")
	}
}
