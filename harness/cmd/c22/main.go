// c22: conformance harness binding PkixName.tla (C22, distinguished names round-trip through
// RDN sequences) to x509/pkix.Name and encoding/asn1.
//
//	c22 replay-gen <cases.ndjson>   TLC-generated names / RDN sequences (PkixNameGen.tla)
//	c22 replay <replay.json>        one case (exit 1 if the real code disagrees)
//	c22 record <out.ndjson> <n>     seeded random Names: every intermediate result, for Trace_PkixName
//	c22 record-one <replay.json> <out>
package main

import (
	"encoding/json"
	"fmt"
	"math/rand"
	"os"
	"reflect"
	"sort"
	"strconv"

	"github.com/zmap/zcrypto/encoding/asn1"
	"github.com/zmap/zcrypto/x509/pkix"
	"verifharness/lib/obs"
)

type Str = []int            // a string as octets
type ATV [2]json.RawMessage // <<oid, value>>
type AName [][]Str          // 15 fields (order of PkixName.tla FieldName)
type ARDN [][][2]any        // projected RDN sequence: [[ [oid, value] ... ] ... ]

type Case struct {
	K      string          `json:"k"`
	N      AName           `json:"n"`
	RDN    json.RawMessage `json:"rdn"`
	DER    []int           `json:"der"`
	Parsed json.RawMessage `json:"parsed"`
	Filled AName           `json:"filled"`
}

var fieldNames = []string{"CommonName", "EmailAddress", "OrganizationalUnit", "Organization", "StreetAddress",
	"Locality", "Province", "PostalCode", "Country", "DomainComponent",
	"JurisdictionLocality", "JurisdictionProvince", "JurisdictionCountry", "OrganizationIDs", "SerialNumber"}

func str(s Str) string {
	b := make([]byte, len(s))
	for i, x := range s {
		b[i] = byte(x)
	}
	return string(b)
}
func strs(v []Str) []string {
	if len(v) == 0 {
		return nil
	}
	r := make([]string, len(v))
	for i, s := range v {
		r[i] = str(s)
	}
	return r
}
func octets(s string) []any {
	r := make([]any, len(s))
	for i := 0; i < len(s); i++ {
		r[i] = float64(s[i])
	}
	return r
}

// slots: the slice fields of pkix.Name in model order (nil for the two single-valued ones).
func slots(n *pkix.Name) []*[]string {
	return []*[]string{nil, &n.EmailAddress, &n.OrganizationalUnit, &n.Organization, &n.StreetAddress,
		&n.Locality, &n.Province, &n.PostalCode, &n.Country, &n.DomainComponent,
		&n.JurisdictionLocality, &n.JurisdictionProvince, &n.JurisdictionCountry, &n.OrganizationIDs, nil}
}

func buildName(a AName) pkix.Name {
	if len(a) != 15 {
		obs.Fatal("name with %d fields", len(a))
	}
	var n pkix.Name
	for i, p := range slots(&n) {
		if p != nil {
			*p = strs(a[i])
		}
	}
	if len(a[0]) > 0 {
		n.CommonName = str(a[0][0])
	}
	if len(a[14]) > 0 {
		n.SerialNumber = str(a[14][0])
	}
	// abstraction check: the real Name projects back to the abstract one
	if !reflect.DeepEqual(projName(&n), normName(a)) {
		obs.Fatal("concretisation of name %v gives %v", a, projName(&n))
	}
	return n
}

// projName: the 15 fields as lists of octet lists; an empty single-valued field is absent.
func projName(n *pkix.Name) []any {
	r := make([]any, 15)
	for i, p := range slots(n) {
		vals := []any{}
		if p != nil {
			for _, s := range *p {
				vals = append(vals, octets(s))
			}
		}
		r[i] = vals
	}
	if n.CommonName != "" {
		r[0] = []any{octets(n.CommonName)}
	}
	if n.SerialNumber != "" {
		r[14] = []any{octets(n.SerialNumber)}
	}
	return r
}

func normName(a AName) []any {
	r := make([]any, 15)
	for i := range r {
		vals := []any{}
		for _, s := range a[i] {
			if (i == 0 || i == 14) && len(s) == 0 {
				continue
			}
			vals = append(vals, octets(str(s)))
		}
		r[i] = vals
	}
	return r
}

func projRDN(r pkix.RDNSequence) []any {
	out := make([]any, len(r))
	for i, rdn := range r {
		set := make([]any, len(rdn))
		for j, atv := range rdn {
			oid := make([]any, len(atv.Type))
			for k, a := range atv.Type {
				oid[k] = float64(a)
			}
			var val any
			if s, ok := atv.Value.(string); ok {
				val = octets(s)
			} else {
				val = fmt.Sprintf("%T", atv.Value)
			}
			set[j] = []any{oid, val}
		}
		out[i] = set
	}
	return out
}

func anyOf(raw json.RawMessage) any {
	var v any
	if err := json.Unmarshal(raw, &v); err != nil {
		obs.Fatal("%v", err)
	}
	if v == nil {
		return []any{}
	}
	return v
}

// sortedFields: values of every field sorted (a field holds the same values in any order).
func sortedFields(n []any) []any {
	r := make([]any, len(n))
	for i, f := range n {
		vals := append([]any{}, f.([]any)...)
		sort.Slice(vals, func(a, b int) bool {
			x, _ := json.Marshal(vals[a])
			y, _ := json.Marshal(vals[b])
			return string(x) < string(y)
		})
		r[i] = vals
	}
	return r
}

// Run: every intermediate result of the round trip on the real code.
type Run struct {
	Panic  string
	RDN    []any
	MErr   string
	DER    []byte
	UErr   string
	Rest   int
	Parsed []any
	Filled []any
	Back   []any
	ReDER  []byte
}

func run(k string, a AName, der []byte) (r Run) {
	defer func() {
		if x := recover(); x != nil {
			r.Panic = fmt.Sprintf("%v", x)
		}
	}()
	asn1.AllowPermissiveParsing = false
	if k == "name" {
		n := buildName(a)
		seq := n.ToRDNSequence()
		r.RDN = projRDN(seq)
		b, err := asn1.Marshal(seq)
		if err != nil {
			r.MErr = err.Error()
			return
		}
		der = b
	}
	r.DER = der
	var parsed pkix.RDNSequence
	rest, err := asn1.Unmarshal(der, &parsed)
	if err != nil {
		r.UErr = err.Error()
		return
	}
	r.Rest = len(rest)
	r.Parsed = projRDN(parsed)
	var m pkix.Name
	m.FillFromRDNSequence(&parsed)
	r.Filled = projName(&m)
	back := m.ToRDNSequence()
	r.Back = projRDN(back)
	r.ReDER, _ = asn1.Marshal(back)
	return
}

func toBytes(v []int) []byte {
	b := make([]byte, len(v))
	for i, x := range v {
		b[i] = byte(x)
	}
	return b
}

func firstDiffField(a, b []any) string {
	for i := range a {
		if i < len(b) && !reflect.DeepEqual(a[i], b[i]) {
			return fieldNames[i]
		}
	}
	return ""
}

func check(c *Case) (map[string]any, string) {
	r := run(c.K, c.N, toBytes(c.DER))
	sig := func(stage, field string) map[string]any {
		return map[string]any{"stage": stage, "family": c.K, "field": field}
	}
	switch {
	case r.Panic != "":
		return sig("panic", ""), r.Panic
	case c.K == "name" && !reflect.DeepEqual(r.RDN, anyOf(c.RDN)):
		return sig("tordn", ""), fmt.Sprintf("ToRDNSequence gave %v, the specification demands %s", r.RDN, c.RDN)
	case r.MErr != "":
		return sig("marshal", ""), "Marshal of the RDN sequence fails: " + r.MErr
	case string(r.DER) != string(toBytes(c.DER)):
		return sig("marshal", ""), fmt.Sprintf("DER [% x], the specification demands [% x]", r.DER, toBytes(c.DER))
	case r.UErr != "" || r.Rest != 0:
		return sig("parse", ""), fmt.Sprintf("strict Unmarshal of [% x]: error %q, %d bytes left", r.DER, r.UErr, r.Rest)
	case !reflect.DeepEqual(r.Parsed, anyOf(c.Parsed)):
		return sig("parse", ""), fmt.Sprintf("parsed sequence %v, the specification demands %s", r.Parsed, c.Parsed)
	}
	want := sortedFields(normName(c.Filled))
	if got := sortedFields(r.Filled); !reflect.DeepEqual(got, want) {
		return sig("fill", firstDiffField(got, want)), fmt.Sprintf("FillFromRDNSequence gave fields %v, the specification demands %v", got, want)
	}
	if !reflect.DeepEqual(r.Back, anyOf(c.Parsed)) {
		return sig("back", ""), fmt.Sprintf("the refilled Name converts to %v, not to the parsed sequence %s", r.Back, c.Parsed)
	}
	if string(r.ReDER) != string(toBytes(c.DER)) {
		return sig("remarshal", ""), fmt.Sprintf("re-marshalled DER [% x] differs from [% x]", r.ReDER, toBytes(c.DER))
	}
	return nil, ""
}

func main() {
	if len(os.Args) < 3 {
		obs.Fatal("usage")
	}
	switch os.Args[1] {
	case "replay-gen":
		n, bad, nontriv := 0, 0, 0
		fam := map[string]int{}
		seen := map[string]bool{}
		err := obs.ReadLines(os.Args[2], func(line []byte) error {
			var c Case
			if err := json.Unmarshal(line, &c); err != nil {
				return fmt.Errorf("%v: %s", err, line[:min(len(line), 300)])
			}
			n++
			fam[c.K]++
			if len(c.DER) > 2 {
				nontriv++
			}
			if sig, what := check(&c); sig != nil {
				bad++
				k, _ := json.Marshal(sig)
				if !seen[string(k)] {
					seen[string(k)] = true
					obs.Emit(obs.Candidate{Sig: sig, What: what, Case: c})
				}
			}
			return nil
		})
		if err != nil {
			obs.Fatal("%v", err)
		}
		obs.Stat("cases", n)
		obs.Stat("nontrivial", nontriv)
		obs.Stat("families", fam)
		obs.Stat("disagreements", bad)
	case "replay":
		var c Case
		obs.ReadReplay(os.Args[2], &c)
		if sig, what := check(&c); sig != nil {
			fmt.Println("REPRODUCED:", what)
			os.Exit(1)
		}
		fmt.Println("not reproduced")
	case "record":
		n, _ := strconv.Atoi(os.Args[3])
		w := obs.NewWriter(os.Args[2])
		rng := rand.New(rand.NewSource(obs.Seed()))
		for i := 0; i < n; i++ {
			record(w, randomName(rng))
		}
		w.Close()
		obs.Stat("observations", w.N)
	case "record-one":
		var c struct {
			N AName `json:"n"`
		}
		obs.ReadReplay(os.Args[2], &c)
		w := obs.NewWriter(os.Args[3])
		record(w, c.N)
		w.Close()
	default:
		obs.Fatal("unknown command")
	}
}

func nzl(v []any) []any {
	if v == nil {
		return []any{}
	}
	return v
}
func ints(b []byte) []int {
	r := make([]int, len(b))
	for i, x := range b {
		r[i] = int(x)
	}
	return r
}

func record(w *obs.Writer, a AName) {
	r := run("name", a, nil)
	filled := r.Filled
	if filled == nil {
		filled = normName(make(AName, 15))
	}
	w.Write(map[string]any{"n": normName(a), "panic": r.Panic != "", "rdn": nzl(r.RDN), "merr": r.MErr != "", "der": ints(r.DER),
		"uerr": r.UErr != "", "rest": r.Rest, "parsed": nzl(r.Parsed), "filled": filled, "back": nzl(r.Back), "reder": ints(r.ReDER)})
}

var alphabet = []string{"a", "B", "7", " ", ",", "+", "\"", "\\", "<", ">", ";", "#", "=", "@", "*", "&", "é", "€", "'", "(", ":", "?", "/", "-", "."}

func randomString(rng *rand.Rand) Str {
	n := rng.Intn(9)
	s := ""
	for i := 0; i < n; i++ {
		s += alphabet[rng.Intn(len(alphabet))]
	}
	r := make(Str, len(s))
	for i := 0; i < len(s); i++ {
		r[i] = int(s[i])
	}
	return r
}

func randomName(rng *rand.Rand) AName {
	a := make(AName, 15)
	for i := range a {
		a[i] = []Str{}
		if rng.Intn(3) != 0 {
			continue
		}
		k := 1
		if i != 0 && i != 14 {
			k = 1 + rng.Intn(4)
		}
		for j := 0; j < k; j++ {
			s := randomString(rng)
			if (i == 0 || i == 14) && len(s) == 0 {
				continue
			}
			a[i] = append(a[i], s)
		}
	}
	return a
}
