// c09: conformance harness binding Hostname.tla to x509.Certificate.VerifyHostname.
//
//	c09 replay-gen <cases.ndjson>      TLC-generated cases [host, cert, want, path, ipg]: build the
//	                                   certificate, call VerifyHostname, compare with the demanded verdict
//	c09 replay <replay.json>           one case; exit 1 if the real code disagrees with the demanded verdict
//	c09 record <out.ndjson> <n>        seeded random hosts x certificates on the real code -> observations
//	                                   [host, cert, accepted, stdip] for TLC (Trace_Hostname.tla)
//	c09 record-one <replay.json> <out.ndjson>
//
// Characters: one-character strings stand for themselves, "xHH" is the byte 0xHH.
package main

import (
	"bytes"
	"encoding/json"
	"fmt"
	"math/rand"
	"net"
	"os"
	"strconv"
	"strings"
	"time"

	"github.com/zmap/zcrypto/x509"
	"verifharness/lib/obs"
	"verifharness/lib/pki"
)

type Cert struct {
	HasSAN bool       `json:"hasSAN"`
	DNS    [][]string `json:"dns"`
	IPs    [][]int    `json:"ips"`
	CN     []string   `json:"cn"`
	Other  bool       `json:"other"`
}

type Case struct {
	Host []string `json:"host"`
	Cert Cert     `json:"cert"`
	Want string   `json:"want"`
	Path string   `json:"path"`
	IPG  []int    `json:"ipg"` // the specification's value of an IP-literal host (8 groups), else empty
}

func chars(cs []string) []byte {
	var b []byte
	for _, c := range cs {
		switch {
		case len(c) == 1:
			b = append(b, c[0])
		case len(c) == 3 && c[0] == 'x':
			v, err := strconv.ParseUint(c[1:], 16, 8)
			if err != nil {
				obs.Fatal("bad character token %q", c)
			}
			b = append(b, byte(v))
		default:
			obs.Fatal("bad character token %q", c)
		}
	}
	return b
}

func toChars(b []byte) []string {
	out := make([]string, 0, len(b))
	for _, x := range b {
		if x >= 0x21 && x < 0x7f {
			out = append(out, string(rune(x)))
		} else {
			out = append(out, fmt.Sprintf("x%02X", x))
		}
	}
	return out
}

var certCache = map[string]*x509.Certificate{}

// concretise builds (once) and parses the certificate and checks the concretisation: what zcrypto
// parsed must be the abstract certificate again.
func concretise(c Cert) (*x509.Certificate, string) {
	key, _ := json.Marshal(c)
	if x, ok := certCache[string(key)]; ok {
		return x, ""
	}
	h := pki.HostCert{HasSAN: c.HasSAN, CN: string(chars(c.CN))}
	for _, d := range c.DNS {
		h.DNS = append(h.DNS, chars(d))
	}
	for _, ip := range c.IPs {
		b := make([]byte, len(ip))
		for i, v := range ip {
			b[i] = byte(v)
		}
		h.IPs = append(h.IPs, b)
	}
	if c.Other {
		h.Emails = [][]byte{[]byte("someone@example.org")}
	}
	der, err := pki.BuildHostCert(h)
	if err != nil {
		return nil, "cannot build: " + err.Error()
	}
	x, err := x509.ParseCertificate(der)
	if err != nil {
		return nil, "zcrypto cannot parse: " + err.Error()
	}
	// abstraction function
	if x.Subject.CommonName != h.CN {
		obs.Fatal("concretisation: common name %q, want %q", x.Subject.CommonName, h.CN)
	}
	hasSAN := false
	for _, e := range x.Extensions {
		if e.Id.Equal([]int{2, 5, 29, 17}) {
			hasSAN = true
		}
	}
	if hasSAN != c.HasSAN {
		obs.Fatal("concretisation: SAN extension present=%v, want %v", hasSAN, c.HasSAN)
	}
	if len(x.DNSNames) != len(h.DNS) || len(x.IPAddresses) != len(h.IPs) {
		obs.Fatal("concretisation: %d dns %d ip entries, want %d %d", len(x.DNSNames), len(x.IPAddresses), len(h.DNS), len(h.IPs))
	}
	for i := range h.DNS {
		if x.DNSNames[i] != string(h.DNS[i]) {
			obs.Fatal("concretisation: dns name %q, want %q", x.DNSNames[i], h.DNS[i])
		}
	}
	for i := range h.IPs {
		if !bytes.Equal(x.IPAddresses[i], h.IPs[i]) {
			obs.Fatal("concretisation: ip %v, want %v", x.IPAddresses[i], h.IPs[i])
		}
	}
	certCache[string(key)] = x
	return x, ""
}

const watchdog = 60 * time.Second

// verify runs the real code; returns "accept" / "reject" / "panic: ..."
func verify(x *x509.Certificate, host string) string {
	res := ""
	g := obs.Guard(watchdog, func() {
		if err := x.VerifyHostname(host); err == nil {
			res = "accept"
		} else {
			res = "reject"
		}
	})
	if g.Panic != "" {
		return "panic: " + g.Panic
	}
	if g.Timeout {
		return "panic: timeout"
	}
	return res
}

// stdIP: the standard library's reading of the host as an IP literal (brackets optional), used
// only to cross-check the specification's classification and value; nil if not an IP literal.
func stdIP(host string) net.IP {
	cand := host
	if len(host) >= 3 && host[0] == '[' && host[len(host)-1] == ']' {
		cand = host[1 : len(host)-1]
	}
	return net.ParseIP(cand)
}

func groups(ip net.IP) []int {
	b := ip.To16()
	g := make([]int, 8)
	for i := range g {
		g[i] = int(b[2*i])<<8 | int(b[2*i+1])
	}
	return g
}

// classificationAgrees: the specification and net.ParseIP agree on "is an IP literal" and its value.
func classificationAgrees(c Case, host string) bool {
	ip := stdIP(host)
	specIP := strings.HasPrefix(c.Path, "ip")
	if (ip != nil) != specIP {
		return false
	}
	if ip != nil {
		g := groups(ip)
		if len(c.IPG) != 8 {
			return false
		}
		for i := range g {
			if g[i] != c.IPG[i] {
				return false
			}
		}
	}
	return true
}

func sig(c Case, got string) map[string]any {
	if strings.HasPrefix(got, "panic") {
		got = "panic"
	}
	return map[string]any{"path": c.Path, "want": c.Want, "got": got}
}

func runCase(c Case) (got string, judged bool, note string) {
	x, why := concretise(c.Cert)
	if x == nil {
		return "", false, "unbuildable: " + why
	}
	host := string(chars(c.Host))
	if !classificationAgrees(c, host) {
		return "", false, "classification"
	}
	got = verify(x, host)
	if c.Want == "open" && !strings.HasPrefix(got, "panic") {
		return got, false, "open"
	}
	return got, true, ""
}

func main() {
	if len(os.Args) < 3 {
		obs.Fatal("usage")
	}
	switch os.Args[1] {
	case "replay-gen":
		n, judged, open, dropped, unbuildable, bad := 0, 0, 0, 0, 0, 0
		byPath := map[string]int{}
		accepts := 0
		seen := map[string]bool{}
		err := obs.ReadLines(os.Args[2], func(line []byte) error {
			var c Case
			if err := json.Unmarshal(line, &c); err != nil {
				return err
			}
			n++
			got, j, note := runCase(c)
			switch {
			case note == "classification":
				dropped++
				if dropped <= 3 {
					fmt.Fprintf(os.Stderr, "classification differs from net.ParseIP: host %q path %s ipg %v\n", chars(c.Host), c.Path, c.IPG)
				}
				return nil
			case strings.HasPrefix(note, "unbuildable"):
				unbuildable++
				if unbuildable <= 3 {
					fmt.Fprintf(os.Stderr, "%s: %s\n", note, line)
				}
				return nil
			case note == "open":
				open++
				return nil
			}
			if !j {
				return nil
			}
			judged++
			byPath[c.Path]++
			if c.Want == "accept" {
				accepts++
			}
			if got != c.Want {
				bad++
				s := sig(c, got)
				k, _ := json.Marshal(s)
				if !seen[string(k)] {
					seen[string(k)] = true
					obs.Emit(obs.Candidate{Sig: s, Case: c,
						What: fmt.Sprintf("VerifyHostname(%q) on certificate %s: real %s, specification demands %s (rule: %s)",
							chars(c.Host), describe(c.Cert), got, c.Want, c.Path)})
				}
			}
			return nil
		})
		if err != nil {
			obs.Fatal("%v", err)
		}
		obs.Stat("cases", n)
		obs.Stat("judged", judged)
		obs.Stat("judged_accept", accepts)
		obs.Stat("open", open)
		obs.Stat("dropped_classification", dropped)
		obs.Stat("unbuildable", unbuildable)
		obs.Stat("disagreements", bad)
		obs.Stat("by_path", byPath)
	case "replay":
		var c Case
		obs.ReadReplay(os.Args[2], &c)
		got, j, note := runCase(c)
		if j && got != c.Want {
			fmt.Printf("REPRODUCED: VerifyHostname(%q): real %s, specification demands %s\n", chars(c.Host), got, c.Want)
			os.Exit(1)
		}
		fmt.Println("not reproduced", got, note)
	case "record":
		n, _ := strconv.Atoi(os.Args[3])
		record(os.Args[2], n)
	case "record-one":
		var o Observation
		obs.ReadReplay(os.Args[2], &o)
		w := obs.NewWriter(os.Args[3])
		observe(w, o.Host, o.Cert)
		w.Close()
	default:
		obs.Fatal("unknown command")
	}
}

func describe(c Cert) string {
	var dns []string
	for _, d := range c.DNS {
		dns = append(dns, fmt.Sprintf("%q", chars(d)))
	}
	return fmt.Sprintf("{SAN ext: %v, dns: [%s], ips: %v, other SAN entry: %v, CN: %q}", c.HasSAN, strings.Join(dns, " "), c.IPs, c.Other, chars(c.CN))
}

// ---------------------------------------------------------------------------------------------
// code -> spec: seeded random hosts and certificates, judged by TLC

type Observation struct {
	Host     []string `json:"host"`
	Cert     Cert     `json:"cert"`
	Accepted bool     `json:"accepted"`
	Panic    bool     `json:"panic"`
	StdIP    []int    `json:"stdip"` // net.ParseIP's 8 groups for the (unbracketed) host, empty if not an IP literal
}

func observe(w *obs.Writer, host []string, c Cert) bool {
	x, why := concretise(c)
	if x == nil {
		_ = why
		return false
	}
	h := string(chars(host))
	got := verify(x, h)
	o := Observation{Host: host, Cert: c, Accepted: got == "accept", Panic: strings.HasPrefix(got, "panic"), StdIP: []int{}}
	if ip := stdIP(h); ip != nil {
		o.StdIP = groups(ip)
	}
	w.Write(o)
	return true
}

var alphabet = []string{"a", "a", "A", "b", "B", "c", "1", "2", "0", "-", "*", ".", ".", ".", "[", "]", ":", "\xc3\xa9", "\xc3\x89", "\xff", "f", "F", "x", "_"}
var literals = []string{"1.2.3.4", "1.2.3.5", "::1", "::ffff:1.2.3.4", "::FFFF:102:304", "a::b", "A::B", "0:0:0:0:0:0:0:1", "1.2.3.04", "256.1.1.1", "1::2::3", "fe80::1%eth0", "::", "1:2:3:4:5:6:7:8", "1:2:3:4:5:6:7::", "1:2:3:4:5:6:1.2.3.4", "::1.2.3.4", "1.2.3", "01.2.3.4"}

func randName(rng *rand.Rand) string {
	if rng.Intn(6) == 0 {
		return literals[rng.Intn(len(literals))]
	}
	n := rng.Intn(9)
	var sb strings.Builder
	for i := 0; i < n; i++ {
		sb.WriteString(alphabet[rng.Intn(len(alphabet))])
	}
	return sb.String()
}

func mutate(rng *rand.Rand, s string) string {
	switch rng.Intn(12) {
	case 0:
		return strings.ToLower(s)
	case 1:
		return strings.ToUpper(s)
	case 2:
		return s + "."
	case 3:
		return strings.TrimSuffix(s, ".")
	case 4: // star a label
		ls := strings.Split(s, ".")
		ls[rng.Intn(len(ls))] = "*"
		return strings.Join(ls, ".")
	case 5:
		return "[" + s + "]"
	case 6:
		return strings.Trim(s, "[]")
	case 7:
		return "*." + s
	case 8: // flip the case of one byte
		b := []byte(s)
		if len(b) > 0 {
			i := rng.Intn(len(b))
			if b[i] >= 'a' && b[i] <= 'z' {
				b[i] -= 32
			} else if b[i] >= 'A' && b[i] <= 'Z' {
				b[i] += 32
			}
		}
		return string(b)
	case 9:
		return randName(rng)
	}
	return s
}

func validCN(s string) bool {
	for _, r := range s {
		if r == 0xFFFD {
			return false
		}
	}
	return true
}

func record(path string, n int) {
	rng := rand.New(rand.NewSource(obs.Seed()*104729 + 9))
	w := obs.NewWriter(path)
	made := 0
	for made < n {
		host := randName(rng)
		if rng.Intn(8) == 0 {
			host = "[" + host + "]"
		}
		if rng.Intn(8) == 0 {
			host += "."
		}
		var c Cert
		c.HasSAN = rng.Intn(4) != 0
		c.DNS, c.IPs, c.CN = [][]string{}, [][]int{}, []string{}
		if c.HasSAN {
			for i := rng.Intn(4); i > 0; i-- {
				c.DNS = append(c.DNS, toChars([]byte(mutate(rng, mutate(rng, host)))))
			}
			for i := rng.Intn(3); i > 0; i-- {
				ip := stdIP(host)
				if ip == nil || rng.Intn(3) == 0 {
					ip = net.ParseIP(literals[rng.Intn(5)])
				}
				var b []byte = ip.To16()
				if v4 := ip.To4(); v4 != nil && rng.Intn(2) == 0 {
					b = v4
				}
				ints := make([]int, len(b))
				for k, v := range b {
					ints[k] = int(v)
				}
				c.IPs = append(c.IPs, ints)
			}
			c.Other = len(c.DNS)+len(c.IPs) == 0 || rng.Intn(6) == 0
		}
		if rng.Intn(3) != 0 {
			cn := mutate(rng, host)
			if validCN(cn) {
				c.CN = toChars([]byte(cn))
			}
		}
		if observe(w, toChars([]byte(host)), c) {
			made++
		}
	}
	w.Close()
	obs.Stat("observations", made)
}
