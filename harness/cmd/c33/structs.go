package main

// Structured JSON value types: concretisation of TLC-generated presence patterns, projection
// of real values to abstract records, execution of the real codecs.

import (
	"bytes"
	"encoding/hex"
	"encoding/json"
	"fmt"
	"math/big"
	"math/rand"
	"net"
	"sort"
	"strconv"
	"strings"

	"github.com/zmap/zcrypto/ct"
	"github.com/zmap/zcrypto/encoding/asn1"
	zjson "github.com/zmap/zcrypto/json"
	"github.com/zmap/zcrypto/rsa"
	"github.com/zmap/zcrypto/x509"
	"github.com/zmap/zcrypto/x509/pkix"
	"verifharness/lib/obs"
)

type abs = map[string]any

type structType struct {
	name string
	// fill: presence pattern -> abstract value with seeded content
	fill func(pat map[string]string, r *rand.Rand) abs
	// mk: abstract value -> real value (pointer)
	mk func(a abs) any
	// proj: real value (pointer) -> abstract value; the abstraction function (rule 2)
	proj func(v any) abs
	// projDec: projection of a decoded value (defaults to proj)
	projDec func(v any) abs
	// pat: presence pattern re-derived from the real value
	pat  func(v any) map[string]string
	zero func() any
	// randPat: a random pattern for the random driver
	randPat func(r *rand.Rand) map[string]string
}

// ---- helpers on abstract values (tolerant of values that went through JSON) ----

func aS(a abs, k string) string {
	if s, ok := a[k].(string); ok {
		return s
	}
	return ""
}

func aL(a abs, k string) []string {
	switch x := a[k].(type) {
	case []string:
		return x
	case []any:
		out := make([]string, len(x))
		for i, e := range x {
			out[i], _ = e.(string)
		}
		return out
	}
	return nil
}

func aR(a abs, k string) []abs {
	switch x := a[k].(type) {
	case []abs:
		return x
	case []any:
		out := make([]abs, len(x))
		for i, e := range x {
			out[i], _ = e.(map[string]any)
		}
		return out
	}
	return nil
}

func aM(a abs, k string) abs {
	if m, ok := a[k].(map[string]any); ok {
		return m
	}
	return abs{}
}

func canon(a any) string {
	b, err := json.Marshal(a)
	if err != nil {
		obs.Fatal("canon: %v", err)
	}
	var x any
	json.Unmarshal(b, &x)
	b, _ = json.Marshal(x)
	return string(b)
}

func bigAbs(x *big.Int) string {
	if x == nil {
		return "nil"
	}
	return x.Text(16)
}

func absBig(s string) *big.Int {
	if s == "nil" || s == "" {
		return nil
	}
	x, ok := new(big.Int).SetString(s, 16)
	if !ok {
		obs.Fatal("bad big %q", s)
	}
	return x
}

func randBig(r *rand.Rand) *big.Int {
	n := 1 + r.Intn(66)
	b := make([]byte, n)
	r.Read(b)
	if b[0] == 0 {
		b[0] = 1
	}
	return new(big.Int).SetBytes(b)
}

func randBytes(r *rand.Rand, n int) []byte {
	b := make([]byte, n)
	r.Read(b)
	return b
}

func unhex(s string) []byte {
	b, err := hex.DecodeString(s)
	if err != nil {
		obs.Fatal("bad hex %q", s)
	}
	return b
}

var alphabet = []string{"a", "b", "Z", "0", "-", ".", " ", "é", "中", "\"", "\\", "<", "&"}

func randStr(r *rand.Rand) string {
	n := 1 + r.Intn(12)
	var sb strings.Builder
	for i := 0; i < n; i++ {
		sb.WriteString(alphabet[r.Intn(len(alphabet))])
	}
	return sb.String()
}

func randOID(r *rand.Rand) []int {
	n := 2 + r.Intn(6)
	o := []int{r.Intn(3), r.Intn(40)}
	for i := 2; i < n; i++ {
		o = append(o, r.Intn(1<<uint(1+r.Intn(30))))
	}
	return o
}

func oidStr(o []int) string { return asn1.ObjectIdentifier(o).String() }

func strOID(s string) asn1.ObjectIdentifier {
	if s == "" {
		return nil
	}
	var o asn1.ObjectIdentifier
	for _, p := range strings.Split(s, ".") {
		n, err := strconv.Atoi(p)
		if err != nil {
			obs.Fatal("bad oid %q", s)
		}
		o = append(o, n)
	}
	return o
}

func count(state string) int {
	switch state {
	case "one", "set":
		return 1
	case "two":
		return 2
	}
	return 0
}

func countState(n int) string {
	switch n {
	case 0:
		return "nil"
	case 1:
		return "one"
	}
	return "two"
}

func pick(r *rand.Rand, states ...string) string { return states[r.Intn(len(states))] }

// ---- json.ECPoint -------------------------------------------------------------

func pointAbs(p *zjson.ECPoint) abs { return abs{"x": bigAbs(p.X), "y": bigAbs(p.Y)} }
func absPoint(a abs) *zjson.ECPoint {
	return &zjson.ECPoint{X: absBig(aS(a, "x")), Y: absBig(aS(a, "y"))}
}
func bigState(x *big.Int) string {
	if x == nil {
		return "nil"
	}
	return "set"
}
func fillBig(state string, r *rand.Rand) string {
	if state == "set" {
		return bigAbs(randBig(r))
	}
	return "nil"
}

var stECPoint = &structType{
	name: "json.ECPoint",
	fill: func(p map[string]string, r *rand.Rand) abs {
		return abs{"x": fillBig(p["x"], r), "y": fillBig(p["y"], r)}
	},
	mk:   func(a abs) any { return absPoint(a) },
	proj: func(v any) abs { return pointAbs(v.(*zjson.ECPoint)) },
	pat: func(v any) map[string]string {
		p := v.(*zjson.ECPoint)
		return map[string]string{"x": bigState(p.X), "y": bigState(p.Y)}
	},
	zero: func() any { return new(zjson.ECPoint) },
	randPat: func(r *rand.Rand) map[string]string {
		return map[string]string{"x": pick(r, "set", "set", "set", "nil"), "y": pick(r, "set", "nil")}
	},
}

// ---- json.DHParams ------------------------------------------------------------

var dhMembers = []string{"prime", "generator", "server_public", "server_private", "client_public", "client_private", "session_key"}

func dhPtrs(p *zjson.DHParams) []**big.Int {
	return []**big.Int{&p.Prime, &p.Generator, &p.ServerPublic, &p.ServerPrivate, &p.ClientPublic, &p.ClientPrivate, &p.SessionKey}
}

var stDHParams = &structType{
	name: "json.DHParams",
	fill: func(p map[string]string, r *rand.Rand) abs {
		a := abs{}
		for _, m := range dhMembers {
			a[m] = fillBig(p[m], r)
		}
		return a
	},
	mk: func(a abs) any {
		p := new(zjson.DHParams)
		for i, q := range dhPtrs(p) {
			*q = absBig(aS(a, dhMembers[i]))
		}
		return p
	},
	proj: func(v any) abs {
		a := abs{}
		for i, q := range dhPtrs(v.(*zjson.DHParams)) {
			a[dhMembers[i]] = bigAbs(*q)
		}
		return a
	},
	pat: func(v any) map[string]string {
		m := map[string]string{}
		for i, q := range dhPtrs(v.(*zjson.DHParams)) {
			m[dhMembers[i]] = bigState(*q)
		}
		return m
	},
	zero: func() any { return new(zjson.DHParams) },
	randPat: func(r *rand.Rand) map[string]string {
		m := map[string]string{}
		for i, k := range dhMembers {
			if i < 2 {
				m[k] = pick(r, "set", "set", "set", "set", "nil")
			} else {
				m[k] = pick(r, "set", "nil")
			}
		}
		return m
	},
}

// ---- json.ECDHParams ----------------------------------------------------------

func privAbs(p *zjson.ECDHPrivateParams) []abs {
	if p == nil {
		return []abs{}
	}
	return []abs{{"value": hex.EncodeToString(p.Value), "length": strconv.Itoa(p.Length)}}
}
func absPriv(l []abs) *zjson.ECDHPrivateParams {
	if len(l) == 0 {
		return nil
	}
	n, _ := strconv.Atoi(aS(l[0], "length"))
	return &zjson.ECDHPrivateParams{Value: unhex(aS(l[0], "value")), Length: n}
}
func optPointAbs(p *zjson.ECPoint) []abs {
	if p == nil {
		return []abs{}
	}
	return []abs{pointAbs(p)}
}
func absOptPoint(l []abs) *zjson.ECPoint {
	if len(l) == 0 {
		return nil
	}
	return absPoint(l[0])
}
func fillOptPoint(state string, r *rand.Rand) []abs {
	switch state {
	case "xy":
		return []abs{{"x": bigAbs(randBig(r)), "y": bigAbs(randBig(r))}}
	case "x":
		return []abs{{"x": bigAbs(randBig(r)), "y": "nil"}}
	}
	return []abs{}
}
func optPointState(p *zjson.ECPoint) string {
	if p == nil {
		return "nil"
	}
	if p.X == nil {
		return "nox"
	}
	if p.Y == nil {
		return "x"
	}
	return "xy"
}
func fillPriv(state string, r *rand.Rand) []abs {
	if state != "set" {
		return []abs{}
	}
	b := randBytes(r, 1+r.Intn(48))
	return []abs{{"value": hex.EncodeToString(b), "length": strconv.Itoa(8 * len(b))}}
}
func ptrState(isNil bool) string {
	if isNil {
		return "nil"
	}
	return "set"
}

var stECDHParams = &structType{
	name: "json.ECDHParams",
	fill: func(p map[string]string, r *rand.Rand) abs {
		cid := "0"
		if p["curve_id"] == "set" {
			cid = strconv.Itoa(1 + r.Intn(65535))
		}
		return abs{"curve_id": cid,
			"server_public": fillOptPoint(p["server_public"], r), "server_private": fillPriv(p["server_private"], r),
			"client_public": fillOptPoint(p["client_public"], r), "client_private": fillPriv(p["client_private"], r)}
	},
	mk: func(a abs) any {
		cid, _ := strconv.Atoi(aS(a, "curve_id"))
		return &zjson.ECDHParams{TLSCurveID: zjson.TLSCurveID(cid),
			ServerPublic: absOptPoint(aR(a, "server_public")), ServerPrivate: absPriv(aR(a, "server_private")),
			ClientPublic: absOptPoint(aR(a, "client_public")), ClientPrivate: absPriv(aR(a, "client_private"))}
	},
	proj: func(v any) abs {
		p := v.(*zjson.ECDHParams)
		return abs{"curve_id": strconv.Itoa(int(p.TLSCurveID)),
			"server_public": optPointAbs(p.ServerPublic), "server_private": privAbs(p.ServerPrivate),
			"client_public": optPointAbs(p.ClientPublic), "client_private": privAbs(p.ClientPrivate)}
	},
	pat: func(v any) map[string]string {
		p := v.(*zjson.ECDHParams)
		c := "zero"
		if p.TLSCurveID != 0 {
			c = "set"
		}
		return map[string]string{"curve_id": c,
			"server_public": optPointState(p.ServerPublic), "server_private": ptrState(p.ServerPrivate == nil),
			"client_public": optPointState(p.ClientPublic), "client_private": ptrState(p.ClientPrivate == nil)}
	},
	zero: func() any { return new(zjson.ECDHParams) },
	randPat: func(r *rand.Rand) map[string]string {
		return map[string]string{"curve_id": pick(r, "zero", "set"),
			"server_public": pick(r, "nil", "xy", "x"), "server_private": pick(r, "nil", "set"),
			"client_public": pick(r, "nil", "xy", "x"), "client_private": pick(r, "nil", "set")}
	},
}

// ---- json.RSAPublicKey --------------------------------------------------------

func rsaKeyState(k *zjson.RSAPublicKey) string {
	if k.PublicKey == nil {
		return "nil"
	}
	if k.E == nil || k.N == nil {
		return "partial"
	}
	switch {
	case k.E.Cmp(big.NewInt(3)) == 0:
		return "e3"
	case k.E.Cmp(big.NewInt(65537)) == 0:
		return "e65537"
	case k.E.BitLen() > 64:
		return "ebig"
	}
	return "eother"
}

var stRSAPublicKey = &structType{
	name: "json.RSAPublicKey",
	fill: func(p map[string]string, r *rand.Rand) abs {
		n := new(big.Int).SetBytes(randBytes(r, 64+r.Intn(200)))
		n.SetBit(n, 0, 1)
		n.SetBit(n, n.BitLen(), 1)
		switch p["key"] {
		case "e3":
			return abs{"present": "yes", "e": "3", "n": bigAbs(n)}
		case "e65537":
			return abs{"present": "yes", "e": "65537", "n": bigAbs(n)}
		case "ebig":
			e := new(big.Int).SetBytes(randBytes(r, 9+r.Intn(250)))
			e.SetBit(e, 0, 1)
			e.SetBit(e, 65+r.Intn(60), 1)
			return abs{"present": "yes", "e": e.String(), "n": bigAbs(n)}
		}
		return abs{"present": "no", "e": "nil", "n": "nil"}
	},
	mk: func(a abs) any {
		if aS(a, "present") != "yes" {
			return &zjson.RSAPublicKey{}
		}
		e, ok := new(big.Int).SetString(aS(a, "e"), 10)
		if !ok {
			obs.Fatal("bad exponent %q", aS(a, "e"))
		}
		return &zjson.RSAPublicKey{PublicKey: &rsa.PublicKey{N: absBig(aS(a, "n")), E: e}}
	},
	proj: func(v any) abs {
		k := v.(*zjson.RSAPublicKey)
		if k.PublicKey == nil {
			return abs{"present": "no", "e": "nil", "n": "nil"}
		}
		e := "nil"
		if k.E != nil {
			e = k.E.String()
		}
		return abs{"present": "yes", "e": e, "n": bigAbs(k.N)}
	},
	pat:  func(v any) map[string]string { return map[string]string{"key": rsaKeyState(v.(*zjson.RSAPublicKey))} },
	zero: func() any { return new(zjson.RSAPublicKey) },
	randPat: func(r *rand.Rand) map[string]string {
		return map[string]string{"key": pick(r, "nil", "e3", "e65537", "ebig", "ebig")}
	},
}

// ---- json.RSAClientParams -----------------------------------------------------

var stRSAClientParams = &structType{
	name: "json.RSAClientParams",
	fill: func(p map[string]string, r *rand.Rand) abs {
		l, pms := "0", ""
		if p["length"] == "set" {
			l = strconv.Itoa(1 + r.Intn(65535))
		}
		if p["pms"] == "set" {
			pms = hex.EncodeToString(randBytes(r, 1+r.Intn(300)))
		}
		return abs{"length": l, "pms": pms}
	},
	mk: func(a abs) any {
		l, _ := strconv.Atoi(aS(a, "length"))
		var pms []byte
		if s := aS(a, "pms"); s != "" {
			pms = unhex(s)
		}
		return &zjson.RSAClientParams{Length: uint16(l), EncryptedPMS: pms}
	},
	proj: func(v any) abs {
		p := v.(*zjson.RSAClientParams)
		return abs{"length": strconv.Itoa(int(p.Length)), "pms": hex.EncodeToString(p.EncryptedPMS)}
	},
	pat: func(v any) map[string]string {
		p := v.(*zjson.RSAClientParams)
		m := map[string]string{"length": "zero", "pms": "nil"}
		if p.Length != 0 {
			m["length"] = "set"
		}
		if len(p.EncryptedPMS) != 0 {
			m["pms"] = "set"
		}
		return m
	},
	zero: func() any { return new(zjson.RSAClientParams) },
	randPat: func(r *rand.Rand) map[string]string {
		return map[string]string{"length": pick(r, "zero", "set"), "pms": pick(r, "nil", "set")}
	},
}

// ---- pkix.Name ----------------------------------------------------------------

type nameKind struct {
	key string
	oid []int
}

var nameKinds = []nameKind{
	{"common_name", []int{2, 5, 4, 3}},
	{"serial_number", []int{2, 5, 4, 5}},
	{"country", []int{2, 5, 4, 6}},
	{"locality", []int{2, 5, 4, 7}},
	{"province", []int{2, 5, 4, 8}},
	{"street_address", []int{2, 5, 4, 9}},
	{"organization", []int{2, 5, 4, 10}},
	{"organizational_unit", []int{2, 5, 4, 11}},
	{"postal_code", []int{2, 5, 4, 17}},
	{"domain_component", []int{0, 9, 2342, 19200300, 100, 1, 25}},
	{"email_address", []int{1, 2, 840, 113549, 1, 9, 1}},
	{"given_name", []int{2, 5, 4, 42}},
	{"surname", []int{2, 5, 4, 4}},
	{"jurisdiction_country", []int{1, 3, 6, 1, 4, 1, 311, 60, 2, 1, 3}},
	{"jurisdiction_locality", []int{1, 3, 6, 1, 4, 1, 311, 60, 2, 1, 1}},
	{"jurisdiction_province", []int{1, 3, 6, 1, 4, 1, 311, 60, 2, 1, 2}},
	{"organization_id", []int{2, 5, 4, 97}},
}

func kindOf(oid asn1.ObjectIdentifier) string {
	for _, k := range nameKinds {
		if oid.Equal(asn1.ObjectIdentifier(k.oid)) {
			return k.key
		}
	}
	return ""
}

func emptyAttrs() map[string][]string {
	m := map[string][]string{}
	for _, k := range nameKinds {
		m[k.key] = []string{}
	}
	return m
}

func attrsAbs(m map[string][]string) abs {
	a := abs{}
	for k, v := range m {
		a[k] = v
	}
	return a
}

func atvAttrs(atvs []pkix.AttributeTypeAndValue, into map[string][]string) {
	for _, atv := range atvs {
		s, ok := atv.Value.(string)
		if !ok {
			continue
		}
		if k := kindOf(atv.Type); k != "" {
			into[k] = append(into[k], s)
		}
	}
}

// nameFields: what the name *is* as far as its attribute-typed content goes: the RDN
// sequence it was parsed from if there is one, else its typed fields (+ ExtraNames).
func nameFields(n *pkix.Name) map[string][]string {
	m := emptyAttrs()
	if n.OriginalRDNS != nil {
		for _, rdn := range n.OriginalRDNS {
			atvAttrs(rdn, m)
		}
		return m
	}
	add := func(k string, v []string) { m[k] = append(m[k], v...) }
	if n.CommonName != "" {
		add("common_name", []string{n.CommonName})
	}
	if n.SerialNumber != "" {
		add("serial_number", []string{n.SerialNumber})
	}
	add("country", n.Country)
	add("locality", n.Locality)
	add("province", n.Province)
	add("street_address", n.StreetAddress)
	add("organization", n.Organization)
	add("organizational_unit", n.OrganizationalUnit)
	add("postal_code", n.PostalCode)
	add("domain_component", n.DomainComponent)
	add("email_address", n.EmailAddress)
	add("given_name", n.GivenName)
	add("surname", n.Surname)
	add("jurisdiction_country", n.JurisdictionCountry)
	add("jurisdiction_locality", n.JurisdictionLocality)
	add("jurisdiction_province", n.JurisdictionProvince)
	add("organization_id", n.OrganizationIDs)
	atvAttrs(n.ExtraNames, m)
	return m
}

// nameNames: the second reading of "the value of a Name": its Names attribute list.
func nameNames(n *pkix.Name) map[string][]string {
	m := emptyAttrs()
	atvAttrs(n.Names, m)
	return m
}

func mkName(form string, attrs abs) *pkix.Name {
	n := new(pkix.Name)
	if form == "parsed" {
		var rdns pkix.RDNSequence
		for _, k := range nameKinds {
			for _, s := range aL(attrs, k.key) {
				rdns = append(rdns, pkix.RelativeDistinguishedNameSET{{Type: k.oid, Value: s}})
			}
		}
		if rdns == nil {
			rdns = pkix.RDNSequence{}
		}
		n.FillFromRDNSequence(&rdns)
		return n
	}
	get := func(k string) []string {
		l := aL(attrs, k)
		if len(l) == 0 {
			return nil
		}
		return l
	}
	if l := get("common_name"); len(l) > 0 {
		n.CommonName = l[0]
		for _, s := range l[1:] {
			n.ExtraNames = append(n.ExtraNames, pkix.AttributeTypeAndValue{Type: nameKinds[0].oid, Value: s})
		}
	}
	if l := get("serial_number"); len(l) > 0 {
		n.SerialNumber = l[0]
		for _, s := range l[1:] {
			n.ExtraNames = append(n.ExtraNames, pkix.AttributeTypeAndValue{Type: nameKinds[1].oid, Value: s})
		}
	}
	n.Country, n.Locality, n.Province = get("country"), get("locality"), get("province")
	n.StreetAddress, n.Organization, n.OrganizationalUnit = get("street_address"), get("organization"), get("organizational_unit")
	n.PostalCode, n.DomainComponent, n.EmailAddress = get("postal_code"), get("domain_component"), get("email_address")
	n.GivenName, n.Surname = get("given_name"), get("surname")
	n.JurisdictionCountry, n.JurisdictionLocality, n.JurisdictionProvince = get("jurisdiction_country"), get("jurisdiction_locality"), get("jurisdiction_province")
	n.OrganizationIDs = get("organization_id")
	return n
}

func fillAttrs(p map[string]string, r *rand.Rand) abs {
	m := emptyAttrs()
	for _, k := range nameKinds {
		for i := 0; i < count(p[k.key]); i++ {
			m[k.key] = append(m[k.key], randStr(r))
		}
	}
	return attrsAbs(m)
}

func nameForm(n *pkix.Name) string {
	if n.OriginalRDNS != nil {
		return "parsed"
	}
	return "fields"
}

// nameWire: a third reading: the name is what it puts on the wire (ToRDNSequence).  Only
// used to widen what the judge accepts (a typed-field Name does not emit GivenName/Surname).
func nameWire(n *pkix.Name) map[string][]string {
	m := emptyAttrs()
	for _, rdn := range n.ToRDNSequence() {
		atvAttrs(rdn, m)
	}
	return m
}

func projName(v any) abs {
	n := v.(*pkix.Name)
	return abs{"form": nameForm(n), "attrs": attrsAbs(nameFields(n)), "wire": attrsAbs(nameWire(n))}
}

var stName = &structType{
	name: "pkix.Name",
	fill: func(p map[string]string, r *rand.Rand) abs {
		attrs := fillAttrs(p, r)
		a := projName(mkName(p["form"], attrs))
		if canon(a["attrs"]) != canon(attrs) {
			obs.Fatal("pkix.Name concretisation is not faithful: want %s got %s", canon(attrs), canon(a["attrs"]))
		}
		return a
	},
	mk:   func(a abs) any { return mkName(aS(a, "form"), aM(a, "attrs")) },
	proj: projName,
	projDec: func(v any) abs {
		n := v.(*pkix.Name)
		return abs{"fields": attrsAbs(nameFields(n)), "names": attrsAbs(nameNames(n))}
	},
	pat: func(v any) map[string]string {
		n := v.(*pkix.Name)
		m := map[string]string{"form": nameForm(n)}
		for k, l := range nameFields(n) {
			m[k] = countState(len(l))
		}
		return m
	},
	zero: func() any { return new(pkix.Name) },
	randPat: func(r *rand.Rand) map[string]string {
		m := map[string]string{"form": pick(r, "fields", "parsed")}
		for _, k := range nameKinds {
			m[k.key] = pick(r, "nil", "nil", "one", "two")
		}
		return m
	},
}

// simple nested names (only attribute kinds that every reading of the value preserves)
func simpleName(r *rand.Rand) abs {
	m := emptyAttrs()
	m["common_name"] = []string{randStr(r)}
	if r.Intn(2) == 0 {
		m["country"] = []string{"US"}
	}
	if r.Intn(2) == 0 {
		m["organization"] = []string{randStr(r), randStr(r)}
	}
	return attrsAbs(m)
}

// ---- pkix.EDIPartyName / OtherName / Extension / AttributeTypeAndValue ----------

func ediAbs(e pkix.EDIPartyName) abs {
	return abs{"name_assigner": e.NameAssigner, "party_name": e.PartyName}
}
func absEdi(a abs) pkix.EDIPartyName {
	return pkix.EDIPartyName{NameAssigner: aS(a, "name_assigner"), PartyName: aS(a, "party_name")}
}
func strState(s string) string {
	if s == "" {
		return "empty"
	}
	return "set"
}
func fillStr(state string, r *rand.Rand) string {
	if state == "set" {
		return randStr(r)
	}
	return ""
}

var stEDI = &structType{
	name: "pkix.EDIPartyName",
	fill: func(p map[string]string, r *rand.Rand) abs {
		return abs{"name_assigner": fillStr(p["name_assigner"], r), "party_name": fillStr(p["party_name"], r)}
	},
	mk:   func(a abs) any { e := absEdi(a); return &e },
	proj: func(v any) abs { return ediAbs(*v.(*pkix.EDIPartyName)) },
	pat: func(v any) map[string]string {
		e := v.(*pkix.EDIPartyName)
		return map[string]string{"name_assigner": strState(e.NameAssigner), "party_name": strState(e.PartyName)}
	},
	zero: func() any { return new(pkix.EDIPartyName) },
	randPat: func(r *rand.Rand) map[string]string {
		return map[string]string{"name_assigner": pick(r, "empty", "set"), "party_name": pick(r, "empty", "set")}
	},
}

func otherAbs(o pkix.OtherName) abs {
	return abs{"id": oidStr(o.TypeID), "value": hex.EncodeToString(o.Value.Bytes)}
}
func absOther(a abs) pkix.OtherName {
	o := pkix.OtherName{TypeID: strOID(aS(a, "id"))}
	if s := aS(a, "value"); s != "" {
		o.Value = asn1.RawValue{Class: asn1.ClassContextSpecific, Tag: 0, IsCompound: true, Bytes: unhex(s)}
	}
	return o
}

var stOtherName = &structType{
	name: "pkix.OtherName",
	fill: func(p map[string]string, r *rand.Rand) abs {
		a := abs{"id": "", "value": ""}
		if p["id"] == "set" {
			a["id"] = oidStr(randOID(r))
		}
		if p["value"] == "set" {
			a["value"] = hex.EncodeToString(randBytes(r, 1+r.Intn(40)))
		}
		return a
	},
	mk:   func(a abs) any { o := absOther(a); return &o },
	proj: func(v any) abs { return otherAbs(*v.(*pkix.OtherName)) },
	pat: func(v any) map[string]string {
		o := v.(*pkix.OtherName)
		return map[string]string{"id": ptrState(len(o.TypeID) == 0), "value": ptrState(len(o.Value.Bytes) == 0)}
	},
	zero: func() any { return new(pkix.OtherName) },
	randPat: func(r *rand.Rand) map[string]string {
		return map[string]string{"id": pick(r, "set", "set", "nil"), "value": pick(r, "set", "nil")}
	},
}

var stExtension = &structType{
	name: "pkix.Extension",
	fill: func(p map[string]string, r *rand.Rand) abs {
		a := abs{"id": "", "critical": p["critical"], "value": ""}
		if p["id"] == "set" {
			a["id"] = oidStr(randOID(r))
		}
		if p["value"] == "set" {
			a["value"] = hex.EncodeToString(randBytes(r, 1+r.Intn(40)))
		}
		return a
	},
	mk: func(a abs) any {
		e := &pkix.Extension{Id: strOID(aS(a, "id")), Critical: aS(a, "critical") == "true"}
		if s := aS(a, "value"); s != "" {
			e.Value = unhex(s)
		}
		return e
	},
	proj: func(v any) abs {
		e := v.(*pkix.Extension)
		return abs{"id": oidStr(e.Id), "critical": strconv.FormatBool(e.Critical), "value": hex.EncodeToString(e.Value)}
	},
	pat: func(v any) map[string]string {
		e := v.(*pkix.Extension)
		return map[string]string{"id": ptrState(len(e.Id) == 0), "critical": strconv.FormatBool(e.Critical), "value": ptrState(len(e.Value) == 0)}
	},
	zero: func() any { return new(pkix.Extension) },
	randPat: func(r *rand.Rand) map[string]string {
		return map[string]string{"id": pick(r, "set", "set", "nil"), "critical": pick(r, "true", "false"), "value": pick(r, "set", "nil")}
	},
}

func atvVtype(v any) string {
	switch v.(type) {
	case nil:
		return "nil"
	case string:
		return "string"
	}
	return "other"
}

var stATV = &structType{
	name: "pkix.AttributeTypeAndValue",
	fill: func(p map[string]string, r *rand.Rand) abs {
		a := abs{"type": "", "vtype": "string", "value": ""}
		if p["type"] == "set" {
			a["type"] = oidStr(randOID(r))
		}
		switch p["value"] {
		case "str":
			a["value"] = randStr(r)
		case "nil":
			a["vtype"] = "nil"
		case "other":
			a["vtype"] = "other"
		}
		return a
	},
	mk: func(a abs) any {
		atv := &pkix.AttributeTypeAndValue{Type: strOID(aS(a, "type"))}
		switch aS(a, "vtype") {
		case "string":
			atv.Value = aS(a, "value")
		case "other":
			atv.Value = 42
		}
		return atv
	},
	proj: func(v any) abs {
		atv := v.(*pkix.AttributeTypeAndValue)
		s, _ := atv.Value.(string)
		return abs{"type": oidStr(atv.Type), "vtype": atvVtype(atv.Value), "value": s}
	},
	pat: func(v any) map[string]string {
		atv := v.(*pkix.AttributeTypeAndValue)
		val := atvVtype(atv.Value)
		if s, ok := atv.Value.(string); ok {
			val = "empty"
			if s != "" {
				val = "str"
			}
		}
		return map[string]string{"type": ptrState(len(atv.Type) == 0), "value": val}
	},
	zero: func() any { return new(pkix.AttributeTypeAndValue) },
	randPat: func(r *rand.Rand) map[string]string {
		return map[string]string{"type": pick(r, "set", "nil"), "value": pick(r, "str", "str", "empty", "nil", "other")}
	},
}

// ---- x509.GeneralNames --------------------------------------------------------

var gnMembers = []string{"directory_names", "dns_names", "edi_party_names", "email_addresses", "ip_addresses", "other_names", "registered_ids", "uris"}

func randIP(r *rand.Rand) net.IP {
	if r.Intn(2) == 0 {
		return net.IP(randBytes(r, 4))
	}
	return net.IP(randBytes(r, 16))
}

func namesAbs(l []pkix.Name) []abs {
	out := []abs{}
	for i := range l {
		out = append(out, attrsAbs(nameFields(&l[i])))
	}
	return out
}
func absNames(l []abs) []pkix.Name {
	var out []pkix.Name
	for _, a := range l {
		out = append(out, *mkName("fields", a))
	}
	return out
}
func strsOrEmpty(l []string) []string {
	if l == nil {
		return []string{}
	}
	return l
}
func nilIfEmpty(l []string) []string {
	if len(l) == 0 {
		return nil
	}
	return l
}

func fillList(state string, f func() any) []any {
	out := []any{}
	for i := 0; i < count(state); i++ {
		out = append(out, f())
	}
	return out
}

var stGeneralNames = &structType{
	name: "x509.GeneralNames",
	fill: func(p map[string]string, r *rand.Rand) abs {
		return abs{
			"directory_names": fillList(p["directory_names"], func() any { return simpleName(r) }),
			"dns_names":       fillList(p["dns_names"], func() any { return randStr(r) }),
			"edi_party_names": fillList(p["edi_party_names"], func() any { return abs{"name_assigner": fillStr(pick(r, "set", "empty"), r), "party_name": randStr(r)} }),
			"email_addresses": fillList(p["email_addresses"], func() any { return randStr(r) }),
			"ip_addresses":    fillList(p["ip_addresses"], func() any { return randIP(r).String() }),
			"other_names": fillList(p["other_names"], func() any {
				return abs{"id": oidStr(randOID(r)), "value": hex.EncodeToString(randBytes(r, 1+r.Intn(20)))}
			}),
			"registered_ids": fillList(p["registered_ids"], func() any { return oidStr(randOID(r)) }),
			"uris":           fillList(p["uris"], func() any { return randStr(r) }),
		}
	},
	mk: func(a abs) any {
		g := &x509.GeneralNames{}
		g.DirectoryNames = absNames(aR(a, "directory_names"))
		g.DNSNames = nilIfEmpty(aL(a, "dns_names"))
		for _, e := range aR(a, "edi_party_names") {
			g.EDIPartyNames = append(g.EDIPartyNames, absEdi(e))
		}
		g.EmailAddresses = nilIfEmpty(aL(a, "email_addresses"))
		for _, s := range aL(a, "ip_addresses") {
			ip := net.ParseIP(s)
			if v4 := ip.To4(); v4 != nil && !strings.Contains(s, ":") {
				ip = v4
			}
			g.IPAddresses = append(g.IPAddresses, ip)
		}
		for _, o := range aR(a, "other_names") {
			g.OtherNames = append(g.OtherNames, absOther(o))
		}
		for _, s := range aL(a, "registered_ids") {
			g.RegisteredIDs = append(g.RegisteredIDs, strOID(s))
		}
		g.URIs = nilIfEmpty(aL(a, "uris"))
		return g
	},
	proj: func(v any) abs {
		g := v.(*x509.GeneralNames)
		edi, ips, others, rids := []abs{}, []string{}, []abs{}, []string{}
		for _, e := range g.EDIPartyNames {
			edi = append(edi, ediAbs(e))
		}
		for _, ip := range g.IPAddresses {
			ips = append(ips, ip.String())
		}
		for _, o := range g.OtherNames {
			others = append(others, otherAbs(o))
		}
		for _, o := range g.RegisteredIDs {
			rids = append(rids, oidStr(o))
		}
		return abs{"directory_names": namesAbs(g.DirectoryNames), "dns_names": strsOrEmpty(g.DNSNames), "edi_party_names": edi,
			"email_addresses": strsOrEmpty(g.EmailAddresses), "ip_addresses": ips, "other_names": others, "registered_ids": rids,
			"uris": strsOrEmpty(g.URIs)}
	},
	pat: func(v any) map[string]string {
		g := v.(*x509.GeneralNames)
		return map[string]string{"directory_names": countState(len(g.DirectoryNames)), "dns_names": countState(len(g.DNSNames)),
			"edi_party_names": countState(len(g.EDIPartyNames)), "email_addresses": countState(len(g.EmailAddresses)),
			"ip_addresses": countState(len(g.IPAddresses)), "other_names": countState(len(g.OtherNames)),
			"registered_ids": countState(len(g.RegisteredIDs)), "uris": countState(len(g.URIs))}
	},
	zero: func() any { return new(x509.GeneralNames) },
	randPat: func(r *rand.Rand) map[string]string {
		m := map[string]string{}
		for _, k := range gnMembers {
			m[k] = pick(r, "nil", "one", "two")
		}
		return m
	},
}

// ---- x509.GeneralSubtreeIP and x509.NameConstraints ------------------------------

func randIPNet(r *rand.Rand, family, prefix, host string) net.IPNet {
	n := 4
	if family == "v6" {
		n = 16
	}
	bits := n * 8
	ones := 0
	switch prefix {
	case "mid":
		ones = 1 + r.Intn(bits-1)
	case "full":
		ones = bits
	}
	ip := net.IP(randBytes(r, n))
	mask := net.CIDRMask(ones, bits)
	if host == "zero" {
		ip = ip.Mask(mask)
	} else if ones < bits {
		ip[n-1] |= 1 // a host bit outside the mask
	}
	return net.IPNet{IP: ip, Mask: mask}
}

func ipnetState(d net.IPNet) (family, prefix, host string) {
	family = "v6"
	ip := d.IP
	if len(d.Mask) == 4 {
		family = "v4"
		if v4 := ip.To4(); v4 != nil {
			ip = v4
		}
	}
	ones, bits := d.Mask.Size()
	switch {
	case ones == 0:
		prefix = "zero"
	case ones == bits:
		prefix = "full"
	default:
		prefix = "mid"
	}
	host = "nonzero"
	if ip.Mask(d.Mask).Equal(ip) {
		host = "zero"
	}
	return
}

func parseIPNet(s string) net.IPNet {
	ip, n, err := net.ParseCIDR(s)
	if err != nil {
		obs.Fatal("bad cidr %q", s)
	}
	if len(n.Mask) == 4 {
		ip = ip.To4()
	}
	return net.IPNet{IP: ip, Mask: n.Mask}
}

var stSubtreeIP = &structType{
	name: "x509.GeneralSubtreeIP",
	fill: func(p map[string]string, r *rand.Rand) abs {
		d := randIPNet(r, p["family"], p["prefix"], p["host"])
		return abs{"cidr": d.String(), "min": "0", "max": "0"}
	},
	mk: func(a abs) any {
		mi, _ := strconv.Atoi(aS(a, "min"))
		ma, _ := strconv.Atoi(aS(a, "max"))
		return &x509.GeneralSubtreeIP{Data: parseIPNet(aS(a, "cidr")), Min: mi, Max: ma}
	},
	proj: func(v any) abs {
		g := v.(*x509.GeneralSubtreeIP)
		return abs{"cidr": g.Data.String(), "min": strconv.Itoa(g.Min), "max": strconv.Itoa(g.Max)}
	},
	pat: func(v any) map[string]string {
		f, p, h := ipnetState(v.(*x509.GeneralSubtreeIP).Data)
		return map[string]string{"family": f, "prefix": p, "host": h}
	},
	zero: func() any { return new(x509.GeneralSubtreeIP) },
	randPat: func(r *rand.Rand) map[string]string {
		p := pick(r, "zero", "mid", "mid", "full")
		h := pick(r, "zero", "nonzero")
		if p == "full" {
			h = "zero"
		}
		return map[string]string{"family": pick(r, "v4", "v6"), "prefix": p, "host": h}
	},
}

var ncMembers = []string{"permitted_dns", "permitted_email", "permitted_uri", "permitted_ip", "permitted_dir", "permitted_edi", "permitted_rid",
	"excluded_dns", "excluded_email", "excluded_uri", "excluded_ip", "excluded_dir", "excluded_edi", "excluded_rid"}

func subStrs(l []x509.GeneralSubtreeString) []string {
	out := []string{}
	for _, s := range l {
		out = append(out, s.Data)
	}
	return out
}
func strSubs(l []string) []x509.GeneralSubtreeString {
	var out []x509.GeneralSubtreeString
	for _, s := range l {
		out = append(out, x509.GeneralSubtreeString{Data: s})
	}
	return out
}
func subIPs(l []x509.GeneralSubtreeIP) []string {
	out := []string{}
	for _, s := range l {
		out = append(out, s.Data.String())
	}
	return out
}
func ipSubs(l []string) []x509.GeneralSubtreeIP {
	var out []x509.GeneralSubtreeIP
	for _, s := range l {
		out = append(out, x509.GeneralSubtreeIP{Data: parseIPNet(s)})
	}
	return out
}
func subDirs(l []x509.GeneralSubtreeName) []abs {
	out := []abs{}
	for i := range l {
		out = append(out, attrsAbs(nameFields(&l[i].Data)))
	}
	return out
}
func dirSubs(l []abs) []x509.GeneralSubtreeName {
	var out []x509.GeneralSubtreeName
	for _, a := range l {
		out = append(out, x509.GeneralSubtreeName{Data: *mkName("fields", a)})
	}
	return out
}
func subEdis(l []x509.GeneralSubtreeEdi) []abs {
	out := []abs{}
	for _, e := range l {
		out = append(out, ediAbs(e.Data))
	}
	return out
}
func ediSubs(l []abs) []x509.GeneralSubtreeEdi {
	var out []x509.GeneralSubtreeEdi
	for _, a := range l {
		out = append(out, x509.GeneralSubtreeEdi{Data: absEdi(a)})
	}
	return out
}
func subRids(l []x509.GeneralSubtreeOid) []string {
	out := []string{}
	for _, o := range l {
		out = append(out, oidStr(o.Data))
	}
	return out
}
func ridSubs(l []string) []x509.GeneralSubtreeOid {
	var out []x509.GeneralSubtreeOid
	for _, s := range l {
		out = append(out, x509.GeneralSubtreeOid{Data: strOID(s)})
	}
	return out
}

// minmax reports whether every subtree carries Min = Max = 0 (the JSON form has no place for them)
func ncMinMaxZero(nc *x509.NameConstraints) bool {
	ok := true
	chkS := func(l []x509.GeneralSubtreeString) {
		for _, s := range l {
			ok = ok && s.Min == 0 && s.Max == 0
		}
	}
	chkS(nc.PermittedDNSNames)
	chkS(nc.PermittedEmailAddresses)
	chkS(nc.PermittedURIs)
	chkS(nc.ExcludedDNSNames)
	chkS(nc.ExcludedEmailAddresses)
	chkS(nc.ExcludedURIs)
	for _, l := range [][]x509.GeneralSubtreeIP{nc.PermittedIPAddresses, nc.ExcludedIPAddresses} {
		for _, s := range l {
			ok = ok && s.Min == 0 && s.Max == 0
		}
	}
	for _, l := range [][]x509.GeneralSubtreeName{nc.PermittedDirectoryNames, nc.ExcludedDirectoryNames} {
		for _, s := range l {
			ok = ok && s.Min == 0 && s.Max == 0
		}
	}
	for _, l := range [][]x509.GeneralSubtreeEdi{nc.PermittedEdiPartyNames, nc.ExcludedEdiPartyNames} {
		for _, s := range l {
			ok = ok && s.Min == 0 && s.Max == 0
		}
	}
	for _, l := range [][]x509.GeneralSubtreeOid{nc.PermittedRegisteredIDs, nc.ExcludedRegisteredIDs} {
		for _, s := range l {
			ok = ok && s.Min == 0 && s.Max == 0
		}
	}
	return ok
}

func ncItem(member string, r *rand.Rand) any {
	switch {
	case strings.HasSuffix(member, "_ip"):
		d := randIPNet(r, pick(r, "v4", "v6"), pick(r, "mid", "full", "zero"), "zero")
		return d.String()
	case strings.HasSuffix(member, "_dir"):
		return simpleName(r)
	case strings.HasSuffix(member, "_edi"):
		return abs{"name_assigner": fillStr(pick(r, "set", "empty"), r), "party_name": randStr(r)}
	case strings.HasSuffix(member, "_rid"):
		return oidStr(randOID(r))
	}
	return randStr(r)
}

var stNameConstraints = &structType{
	name: "x509.NameConstraints",
	fill: func(p map[string]string, r *rand.Rand) abs {
		a := abs{"critical": p["critical"], "minmax": "zero"}
		for _, m := range ncMembers {
			a[m] = fillList(p[m], func() any { return ncItem(m, r) })
		}
		return a
	},
	mk: func(a abs) any {
		nc := &x509.NameConstraints{Critical: aS(a, "critical") == "true"}
		nc.PermittedDNSNames, nc.ExcludedDNSNames = strSubs(aL(a, "permitted_dns")), strSubs(aL(a, "excluded_dns"))
		nc.PermittedEmailAddresses, nc.ExcludedEmailAddresses = strSubs(aL(a, "permitted_email")), strSubs(aL(a, "excluded_email"))
		nc.PermittedURIs, nc.ExcludedURIs = strSubs(aL(a, "permitted_uri")), strSubs(aL(a, "excluded_uri"))
		nc.PermittedIPAddresses, nc.ExcludedIPAddresses = ipSubs(aL(a, "permitted_ip")), ipSubs(aL(a, "excluded_ip"))
		nc.PermittedDirectoryNames, nc.ExcludedDirectoryNames = dirSubs(aR(a, "permitted_dir")), dirSubs(aR(a, "excluded_dir"))
		nc.PermittedEdiPartyNames, nc.ExcludedEdiPartyNames = ediSubs(aR(a, "permitted_edi")), ediSubs(aR(a, "excluded_edi"))
		nc.PermittedRegisteredIDs, nc.ExcludedRegisteredIDs = ridSubs(aL(a, "permitted_rid")), ridSubs(aL(a, "excluded_rid"))
		return nc
	},
	proj: func(v any) abs {
		nc := v.(*x509.NameConstraints)
		mm := "zero"
		if !ncMinMaxZero(nc) {
			mm = "nonzero"
		}
		return abs{"critical": strconv.FormatBool(nc.Critical), "minmax": mm,
			"permitted_dns": subStrs(nc.PermittedDNSNames), "excluded_dns": subStrs(nc.ExcludedDNSNames),
			"permitted_email": subStrs(nc.PermittedEmailAddresses), "excluded_email": subStrs(nc.ExcludedEmailAddresses),
			"permitted_uri": subStrs(nc.PermittedURIs), "excluded_uri": subStrs(nc.ExcludedURIs),
			"permitted_ip": subIPs(nc.PermittedIPAddresses), "excluded_ip": subIPs(nc.ExcludedIPAddresses),
			"permitted_dir": subDirs(nc.PermittedDirectoryNames), "excluded_dir": subDirs(nc.ExcludedDirectoryNames),
			"permitted_edi": subEdis(nc.PermittedEdiPartyNames), "excluded_edi": subEdis(nc.ExcludedEdiPartyNames),
			"permitted_rid": subRids(nc.PermittedRegisteredIDs), "excluded_rid": subRids(nc.ExcludedRegisteredIDs)}
	},
	pat: func(v any) map[string]string {
		nc := v.(*x509.NameConstraints)
		return map[string]string{"critical": strconv.FormatBool(nc.Critical),
			"permitted_dns": countState(len(nc.PermittedDNSNames)), "excluded_dns": countState(len(nc.ExcludedDNSNames)),
			"permitted_email": countState(len(nc.PermittedEmailAddresses)), "excluded_email": countState(len(nc.ExcludedEmailAddresses)),
			"permitted_uri": countState(len(nc.PermittedURIs)), "excluded_uri": countState(len(nc.ExcludedURIs)),
			"permitted_ip": countState(len(nc.PermittedIPAddresses)), "excluded_ip": countState(len(nc.ExcludedIPAddresses)),
			"permitted_dir": countState(len(nc.PermittedDirectoryNames)), "excluded_dir": countState(len(nc.ExcludedDirectoryNames)),
			"permitted_edi": countState(len(nc.PermittedEdiPartyNames)), "excluded_edi": countState(len(nc.ExcludedEdiPartyNames)),
			"permitted_rid": countState(len(nc.PermittedRegisteredIDs)), "excluded_rid": countState(len(nc.ExcludedRegisteredIDs))}
	},
	zero: func() any { return new(x509.NameConstraints) },
	randPat: func(r *rand.Rand) map[string]string {
		m := map[string]string{"critical": pick(r, "true", "false")}
		for _, k := range ncMembers {
			m[k] = pick(r, "nil", "nil", "one", "two")
		}
		return m
	},
}

// ---- x509.CertificateFingerprint, ct.SHA256Hash, ct.DigitallySigned --------------

func lenState(n int) string { return "l" + strconv.Itoa(n) }

var stFingerprint = &structType{
	name: "x509.CertificateFingerprint",
	fill: func(p map[string]string, r *rand.Rand) abs {
		n, _ := strconv.Atoi(strings.TrimPrefix(p["len"], "l"))
		return abs{"hex": hex.EncodeToString(randBytes(r, n))}
	},
	mk:   func(a abs) any { f := x509.CertificateFingerprint(unhex(aS(a, "hex"))); return &f },
	proj: func(v any) abs { return abs{"hex": hex.EncodeToString(*v.(*x509.CertificateFingerprint))} },
	pat: func(v any) map[string]string {
		return map[string]string{"len": lenState(len(*v.(*x509.CertificateFingerprint)))}
	},
	zero: func() any { return new(x509.CertificateFingerprint) },
	randPat: func(r *rand.Rand) map[string]string {
		return map[string]string{"len": pick(r, "l0", "l16", "l20", "l32", "l64")}
	},
}

var stSHA256Hash = &structType{
	name: "ct.SHA256Hash",
	fill: func(p map[string]string, r *rand.Rand) abs {
		if p["content"] == "zero" {
			return abs{"hex": strings.Repeat("00", 32)}
		}
		return abs{"hex": hex.EncodeToString(randBytes(r, 32))}
	},
	mk: func(a abs) any {
		var h ct.SHA256Hash
		copy(h[:], unhex(aS(a, "hex")))
		return &h
	},
	proj: func(v any) abs { h := v.(*ct.SHA256Hash); return abs{"hex": hex.EncodeToString(h[:])} },
	pat: func(v any) map[string]string {
		h := v.(*ct.SHA256Hash)
		if *h == (ct.SHA256Hash{}) {
			return map[string]string{"content": "zero"}
		}
		return map[string]string{"content": "random"}
	},
	zero: func() any { return new(ct.SHA256Hash) },
	randPat: func(r *rand.Rand) map[string]string {
		return map[string]string{"content": pick(r, "zero", "random", "random")}
	},
}

func algState(b byte, known []byte) string {
	for _, k := range known {
		if b == k {
			return "known"
		}
	}
	return "unknown"
}

var knownCTHash = []byte{0, 1, 2, 3, 4, 5, 6}
var knownCTSig = []byte{0, 1, 2, 3}

var stDigitallySigned = &structType{
	name: "ct.DigitallySigned",
	fill: func(p map[string]string, r *rand.Rand) abs {
		h, s := int(knownCTHash[r.Intn(len(knownCTHash))]), int(knownCTSig[r.Intn(len(knownCTSig))])
		if p["hash"] == "unknown" {
			h = 7 + r.Intn(249)
		}
		if p["sig"] == "unknown" {
			s = 4 + r.Intn(252)
		}
		n, _ := strconv.Atoi(strings.TrimPrefix(p["siglen"], "l"))
		return abs{"hash": strconv.Itoa(h), "sig": strconv.Itoa(s), "signature": hex.EncodeToString(randBytes(r, n))}
	},
	mk: func(a abs) any {
		h, _ := strconv.Atoi(aS(a, "hash"))
		s, _ := strconv.Atoi(aS(a, "sig"))
		d := &ct.DigitallySigned{HashAlgorithm: ct.HashAlgorithm(h), SignatureAlgorithm: ct.SignatureAlgorithm(s)}
		if x := aS(a, "signature"); x != "" {
			d.Signature = unhex(x)
		}
		return d
	},
	proj: func(v any) abs {
		d := v.(*ct.DigitallySigned)
		return abs{"hash": strconv.Itoa(int(d.HashAlgorithm)), "sig": strconv.Itoa(int(d.SignatureAlgorithm)), "signature": hex.EncodeToString(d.Signature)}
	},
	pat: func(v any) map[string]string {
		d := v.(*ct.DigitallySigned)
		return map[string]string{"hash": algState(byte(d.HashAlgorithm), knownCTHash), "sig": algState(byte(d.SignatureAlgorithm), knownCTSig),
			"siglen": lenState(len(d.Signature))}
	},
	zero: func() any { return new(ct.DigitallySigned) },
	randPat: func(r *rand.Rand) map[string]string {
		return map[string]string{"hash": pick(r, "known", "unknown"), "sig": pick(r, "known", "unknown"), "siglen": pick(r, "l0", "l1", "l1", "l72", "l72", "l72", "l72", "l72", "l72", "l65535")}
	},
}

// ---------------------------------------------------------------------------------

var structTypes = []*structType{stECPoint, stDHParams, stECDHParams, stRSAPublicKey, stRSAClientParams, stName, stEDI, stOtherName,
	stExtension, stATV, stGeneralNames, stSubtreeIP, stNameConstraints, stFingerprint, stSHA256Hash, stDigitallySigned}

func findStruct(name string) *structType {
	for _, s := range structTypes {
		if s.name == name {
			return s
		}
	}
	return nil
}

type structObs struct {
	K      string            `json:"k"`
	Type   string            `json:"type"`
	ID     int               `json:"id"`
	Pat    map[string]string `json:"pat"`  // pattern requested by the generator
	RPat   map[string]string `json:"rpat"` // pattern re-derived from the real value
	Val    abs               `json:"val"`
	St     int               `json:"st"`
	Dec    any               `json:"dec"`
	Stable string            `json:"stable"` // re-encoding of the decoded value: yes | no | na
	Keys   []string          `json:"keys"`   // top-level keys of the encoded document
	Enc    string            `json:"enc"`
	Msg    string            `json:"msg"`
}

func marshalGuard(v any) (b []byte, st string) {
	var err error
	if p := guard(func() { b, err = json.Marshal(v) }); p != "" {
		return nil, "panic: " + p
	}
	if err != nil {
		return nil, "error: " + err.Error()
	}
	return b, ""
}

func unmarshalGuard(b []byte, v any) string {
	var err error
	if p := guard(func() { err = json.Unmarshal(b, v) }); p != "" {
		return "panic: " + p
	}
	if err != nil {
		return "error: " + err.Error()
	}
	return ""
}

// stability: encode(d) -> decode -> encode again gives the same document
func stability(st *structType, d any) string {
	e1, s := marshalGuard(d)
	if s != "" {
		return "no"
	}
	d2 := st.zero()
	if unmarshalGuard(e1, d2) != "" {
		return "no"
	}
	e2, s := marshalGuard(d2)
	if s != "" || !bytes.Equal(e1, e2) {
		return "no"
	}
	return "yes"
}

func docKeys(enc []byte) []string {
	var m map[string]json.RawMessage
	if json.Unmarshal(enc, &m) != nil {
		return []string{}
	}
	return sortedKeys(m)
}

// runStruct: abstract value -> real value -> (checked) projection -> encode -> decode -> projection.
func runStruct(st *structType, id int, pat map[string]string, a abs) structObs {
	v := st.mk(a)
	back := st.proj(v)
	if canon(back) != canon(a) {
		obs.Fatal("concretisation of %s is not faithful:\n want %s\n got  %s", st.name, canon(a), canon(back))
	}
	o := structObs{K: "struct", Type: st.name, ID: id, Pat: pat, RPat: st.pat(v), Val: back, Dec: "none", Stable: "na", Keys: []string{}}
	if o.Pat == nil {
		o.Pat = o.RPat
	}
	enc, s := marshalGuard(v)
	switch {
	case strings.HasPrefix(s, "panic"):
		o.St, o.Msg = stEncPanic, s
		return o
	case s != "":
		o.St, o.Msg = stEncErr, s
		return o
	}
	o.Enc = string(enc)
	if len(o.Enc) > 600 {
		o.Enc = o.Enc[:600] + "..."
	}
	o.Keys = docKeys(enc)
	d := st.zero()
	s = unmarshalGuard(enc, d)
	switch {
	case strings.HasPrefix(s, "panic"):
		o.St, o.Msg = stDecPanic, s
		return o
	case s != "":
		o.St, o.Msg = stDecErr, s
		return o
	}
	pd := st.projDec
	if pd == nil {
		pd = st.proj
	}
	if p := guard(func() { o.Dec = pd(d) }); p != "" {
		obs.Fatal("projection of decoded %s panicked: %s", st.name, p)
	}
	o.Stable = stability(st, d)
	return o
}

type structCase struct {
	Type string            `json:"type"`
	ID   int               `json:"id"`
	Pat  map[string]string `json:"pat"`
	Edit map[string]string `json:"edit"`
}

func caseRand(id int, typ string) *rand.Rand {
	h := int64(0)
	for _, c := range typ {
		h = h*131 + int64(c)
	}
	return rand.New(rand.NewSource(obs.Seed()*1000003 + h*7919 + int64(id)))
}

func cmdStruct(cases, out string) {
	w := obs.NewWriter(out)
	n := 0
	per := map[string]int{}
	err := obs.ReadLines(cases, func(line []byte) error {
		var c structCase
		if err := json.Unmarshal(line, &c); err != nil {
			return err
		}
		st := findStruct(c.Type)
		if st == nil {
			return fmt.Errorf("unknown struct type %q", c.Type)
		}
		a := st.fill(c.Pat, caseRand(c.ID, c.Type))
		w.Write(runStruct(st, c.ID, c.Pat, a))
		n++
		per[c.Type]++
		return nil
	})
	if err != nil {
		obs.Fatal("%v", err)
	}
	w.Close()
	obs.Stat("struct_cases", n)
	obs.Stat("struct_per_type", per)
}

func cmdRandom(out string, n int) {
	w := obs.NewWriter(out)
	total := 0
	for _, st := range structTypes {
		for i := 0; i < n; i++ {
			r := caseRand(1000000+i, st.name)
			pat := st.randPat(r)
			a := st.fill(pat, r)
			w.Write(runStruct(st, 1000000+i, pat, a))
			total++
		}
	}
	w.Close()
	obs.Stat("random_values", total)
}

// ---- document direction: edits of the encoding of a fully populated value ----------

type docObs struct {
	K      string            `json:"k"`
	Type   string            `json:"type"`
	ID     int               `json:"id"`
	Edit   map[string]string `json:"edit"`
	Keys   []string          `json:"keys"` // top-level keys of the unedited document
	St     int               `json:"st"`
	Stable string            `json:"stable"`
	Doc    string            `json:"doc"`
	Msg    string            `json:"msg"`
	Val    abs               `json:"val"`
}

func runDoc(st *structType, id int, edit map[string]string, a abs) docObs {
	v := st.mk(a)
	o := docObs{K: "doc", Type: st.name, ID: id, Edit: edit, Stable: "na", Keys: []string{}, Val: a}
	enc, s := marshalGuard(v)
	if s != "" {
		obs.Fatal("document base of %s does not encode: %s", st.name, s)
	}
	var m map[string]json.RawMessage
	if err := json.Unmarshal(enc, &m); err != nil {
		obs.Fatal("document base of %s is not an object: %s", st.name, enc)
	}
	o.Keys = sortedKeys(m)
	for k, e := range edit {
		switch e {
		case "omit":
			delete(m, k)
		case "null":
			if _, ok := m[k]; ok {
				m[k] = json.RawMessage("null")
			}
		}
	}
	// deterministic member order
	var sb strings.Builder
	sb.WriteString("{")
	ks := sortedKeys(m)
	sort.Strings(ks)
	for i, k := range ks {
		if i > 0 {
			sb.WriteString(",")
		}
		kb, _ := json.Marshal(k)
		sb.Write(kb)
		sb.WriteString(":")
		sb.Write(m[k])
	}
	sb.WriteString("}")
	doc := sb.String()
	o.Doc = doc
	if len(o.Doc) > 600 {
		o.Doc = o.Doc[:600] + "..."
	}
	d := st.zero()
	s = unmarshalGuard([]byte(doc), d)
	switch {
	case strings.HasPrefix(s, "panic"):
		o.St, o.Msg = stDecPanic, s
		return o
	case s != "":
		o.St, o.Msg = stDecErr, s
		return o
	}
	o.Stable = stability(st, d)
	return o
}

func fullPattern(st *structType) map[string]string {
	// the most populated pattern of each type (document base)
	switch st.name {
	case "json.ECPoint":
		return map[string]string{"x": "set", "y": "set"}
	case "json.DHParams":
		m := map[string]string{}
		for _, k := range dhMembers {
			m[k] = "set"
		}
		return m
	case "json.ECDHParams":
		return map[string]string{"curve_id": "set", "server_public": "xy", "server_private": "set", "client_public": "xy", "client_private": "set"}
	case "json.RSAPublicKey":
		return map[string]string{"key": "e65537"}
	case "json.RSAClientParams":
		return map[string]string{"length": "set", "pms": "set"}
	case "pkix.Name":
		m := map[string]string{"form": "parsed"}
		for _, k := range nameKinds {
			m[k.key] = "one"
		}
		return m
	case "pkix.EDIPartyName":
		return map[string]string{"name_assigner": "set", "party_name": "set"}
	case "pkix.OtherName":
		return map[string]string{"id": "set", "value": "set"}
	case "pkix.Extension":
		return map[string]string{"id": "set", "critical": "true", "value": "set"}
	case "pkix.AttributeTypeAndValue":
		return map[string]string{"type": "set", "value": "str"}
	case "x509.GeneralNames":
		m := map[string]string{}
		for _, k := range gnMembers {
			m[k] = "one"
		}
		return m
	case "x509.GeneralSubtreeIP":
		return map[string]string{"family": "v4", "prefix": "mid", "host": "zero"}
	case "x509.NameConstraints":
		m := map[string]string{"critical": "true"}
		for _, k := range ncMembers {
			m[k] = "one"
		}
		return m
	}
	return nil
}

func cmdDocs(cases, out string) {
	w := obs.NewWriter(out)
	n := 0
	err := obs.ReadLines(cases, func(line []byte) error {
		var c structCase
		if err := json.Unmarshal(line, &c); err != nil {
			return err
		}
		st := findStruct(c.Type)
		if st == nil {
			return fmt.Errorf("unknown struct type %q", c.Type)
		}
		fp := fullPattern(st)
		if fp == nil {
			return fmt.Errorf("no document base for %q", c.Type)
		}
		a := st.fill(fp, caseRand(c.ID, c.Type))
		w.Write(runDoc(st, c.ID, c.Edit, a))
		n++
		return nil
	})
	if err != nil {
		obs.Fatal("%v", err)
	}
	w.Close()
	obs.Stat("doc_cases", n)
}
