// c33: conformance harness binding JSONEnum.tla to zcrypto's JSON value types.
//
// The harness never decides whether a round trip is acceptable.  It executes the real
// MarshalJSON / UnmarshalJSON code, projects values to abstract records (strings,
// sequences, records only) and logs observations as NDJSON; JSONEnumJudge.tla judges them.
//
//	c33 enum   <out.ndjson>                 exhaustive value sweep of the enumerated types
//	c33 struct <cases.ndjson> <out.ndjson>  TLC-generated presence patterns -> real values
//	c33 docs   <cases.ndjson> <out.ndjson>  TLC-generated document edits (omit / null members)
//	c33 random <out.ndjson> <n>             seeded random structured values
//	c33 one    <replay.json> <out.ndjson>   re-run one case (fresh process) for the judge
package main

import (
	"encoding/json"
	"fmt"
	"os"
	"sort"
	"strconv"

	"github.com/zmap/zcrypto/ct"
	zjson "github.com/zmap/zcrypto/json"
	"github.com/zmap/zcrypto/tls"
	"github.com/zmap/zcrypto/x509"
	"verifharness/lib/obs"
)

// status codes of one encode/decode observation (shared with JSONEnum.tla)
const (
	stOK       = 0
	stEncErr   = 1
	stDecErr   = 2
	stEncPanic = 3
	stDecPanic = 4
)

// guard runs f under recover (the JSON codecs are loop-free on these inputs; hangs are
// bounded by the runner's process timeout).
func guard(f func()) (panicked string) {
	defer func() {
		if r := recover(); r != nil {
			panicked = fmt.Sprintf("%v", r)
		}
	}()
	f()
	return ""
}

// roundTrip encodes *v (through the pointer: that is how the types are marshalled when
// they sit in the handshake log / certificate structures) and decodes into a fresh *T.
func roundTrip[T any](v *T) (st int, enc []byte, dec *T, msg string) {
	var err error
	if p := guard(func() { enc, err = json.Marshal(v) }); p != "" {
		return stEncPanic, nil, nil, p
	}
	if err != nil {
		return stEncErr, nil, nil, err.Error()
	}
	dec = new(T)
	if p := guard(func() { err = json.Unmarshal(enc, dec) }); p != "" {
		return stDecPanic, enc, nil, p
	}
	if err != nil {
		return stDecErr, enc, nil, err.Error()
	}
	return stOK, enc, dec, ""
}

// ---------------------------------------------------------------------------------
// enumerated types

type enumType struct {
	name   string
	lo, hi int // probed universe (inclusive); the domain in which equality is demanded is the spec's
	// run: value -> (status, decoded value (or -1), "value"-like key of the encoded document
	// (or -1), name string of the encoded document, message, encoded JSON)
	run func(v int) (st int, dec int, vk int, name string, msg string, enc []byte)
}

// docInfo extracts the shape facts of an encoded enum document for the B-level checks.
func docInfo(enc []byte, valueKey string) (vk int, name string) {
	vk = -1
	var m map[string]json.RawMessage
	if json.Unmarshal(enc, &m) != nil {
		var s string
		if json.Unmarshal(enc, &s) == nil {
			return -1, s
		}
		return -1, ""
	}
	if raw, ok := m[valueKey]; ok {
		var n int
		if json.Unmarshal(raw, &n) == nil {
			vk = n
		}
	}
	if raw, ok := m["name"]; ok {
		json.Unmarshal(raw, &name)
	}
	return
}

func mkEnum[T any](name string, lo, hi int, valueKey string, mk func(int) T, get func(*T) int) enumType {
	return enumType{name: name, lo: lo, hi: hi, run: func(v int) (int, int, int, string, string, []byte) {
		x := mk(v)
		st, enc, dec, msg := roundTrip(&x)
		d := -1
		if st == stOK {
			d = get(dec)
		}
		vk, nm := -1, ""
		if enc != nil {
			vk, nm = docInfo(enc, valueKey)
		}
		return st, d, vk, nm, msg, enc
	}}
}

var dsPayload = []byte{0xde, 0xad, 0x01}

func enumTypes() []enumType {
	return []enumType{
		mkEnum("tls.TLSVersion", 0, 65535, "value", func(v int) tls.TLSVersion { return tls.TLSVersion(v) }, func(d *tls.TLSVersion) int { return int(*d) }),
		mkEnum("tls.CipherSuiteID", 0, 65535, "value", func(v int) tls.CipherSuiteID { return tls.CipherSuiteID(v) }, func(d *tls.CipherSuiteID) int { return int(*d) }),
		mkEnum("tls.CurveID", 0, 65535, "value", func(v int) tls.CurveID { return tls.CurveID(v) }, func(d *tls.CurveID) int { return int(*d) }),
		mkEnum("json.TLSCurveID", 0, 65535, "id", func(v int) zjson.TLSCurveID { return zjson.TLSCurveID(v) }, func(d *zjson.TLSCurveID) int { return int(*d) }),
		mkEnum("tls.SignatureAndHash", 0, 65535, "", func(v int) tls.SignatureAndHash {
			return tls.SignatureAndHash{Signature: uint8(v >> 8), Hash: uint8(v)}
		}, func(d *tls.SignatureAndHash) int { return int(d.Signature)<<8 | int(d.Hash) }),
		mkEnum("ct.DigitallySigned.algs", 0, 65535, "", func(v int) ct.DigitallySigned {
			return ct.DigitallySigned{HashAlgorithm: ct.HashAlgorithm(v >> 8), SignatureAlgorithm: ct.SignatureAlgorithm(v & 0xff), Signature: dsPayload}
		}, func(d *ct.DigitallySigned) int {
			if string(d.Signature) != string(dsPayload) {
				return -2
			}
			return int(d.HashAlgorithm)<<8 | int(d.SignatureAlgorithm)
		}),
		mkEnum("tls.CompressionMethod", 0, 255, "value", func(v int) tls.CompressionMethod { return tls.CompressionMethod(v) }, func(d *tls.CompressionMethod) int { return int(*d) }),
		mkEnum("tls.PointFormat", 0, 255, "value", func(v int) tls.PointFormat { return tls.PointFormat(v) }, func(d *tls.PointFormat) int { return int(*d) }),
		mkEnum("tls.ClientAuthType", -3, 12, "", func(v int) tls.ClientAuthType { return tls.ClientAuthType(v) }, func(d *tls.ClientAuthType) int { return int(*d) }),
		mkEnum("x509.KeyUsage", -2, 1100, "value", func(v int) x509.KeyUsage { return x509.KeyUsage(v) }, func(d *x509.KeyUsage) int { return int(*d) }),
		mkEnum("x509.PublicKeyAlgorithm", -2, 12, "", func(v int) x509.PublicKeyAlgorithm { return x509.PublicKeyAlgorithm(v) }, func(d *x509.PublicKeyAlgorithm) int { return int(*d) }),
		mkEnum("x509.SignatureAlgorithm", -2, 24, "", func(v int) x509.SignatureAlgorithm { return x509.SignatureAlgorithm(v) }, func(d *x509.SignatureAlgorithm) int { return int(*d) }),
		mkEnum("x509.CertificateType", -2, 8, "", func(v int) x509.CertificateType { return x509.CertificateType(v) }, func(d *x509.CertificateType) int { return int(*d) }),
	}
}

type enumChunk struct {
	K    string   `json:"k"`
	Type string   `json:"type"`
	Base int      `json:"base"`
	St   []int    `json:"st"`
	Dec  []int    `json:"dec"`
	Vk   []int    `json:"vk"`
	Nm   []string `json:"nm,omitempty"` // names, only for the small types (name-table shape)
}

const chunkLen = 256

func cmdEnum(out string) {
	w := obs.NewWriter(out)
	total := 0
	for _, et := range enumTypes() {
		small := et.hi-et.lo < 2000
		for base := et.lo; base <= et.hi; base += chunkLen {
			c := enumChunk{K: "enum", Type: et.name, Base: base}
			for v := base; v < base+chunkLen && v <= et.hi; v++ {
				st, d, vk, nm, _, _ := et.run(v)
				c.St = append(c.St, st)
				c.Dec = append(c.Dec, d)
				c.Vk = append(c.Vk, vk)
				if small {
					c.Nm = append(c.Nm, nm)
				}
				total++
			}
			if !small {
				c.Nm = []string{}
			}
			w.Write(c)
		}
	}
	// component name tables of the name-keyed SignatureAndHash (B-level: injectivity)
	for _, comp := range []string{"signature", "hash"} {
		t := map[string]any{"k": "table", "type": "tls.SignatureAndHash." + comp}
		names := make([]string, 256)
		for i := 0; i < 256; i++ {
			sh := tls.SignatureAndHash{}
			if comp == "signature" {
				sh.Signature = uint8(i)
			} else {
				sh.Hash = uint8(i)
			}
			b, _ := json.Marshal(&sh)
			var m map[string]string
			json.Unmarshal(b, &m)
			names[i] = m[comp+"_algorithm"]
		}
		t["names"] = names
		w.Write(t)
	}
	w.Close()
	obs.Stat("enum_values", total)
}

// enumOne re-runs a single enum value and writes a one-element chunk.
func enumOne(typ string, v int, w *obs.Writer) (found bool) {
	for _, et := range enumTypes() {
		if et.name == typ {
			st, d, vk, nm, msg, enc := et.run(v)
			w.Write(enumChunk{K: "enum", Type: typ, Base: v, St: []int{st}, Dec: []int{d}, Vk: []int{vk}, Nm: []string{nm}})
			fmt.Fprintf(os.Stderr, "enum %s value %d: status %d decoded %d encoded %s %s\n", typ, v, st, d, enc, msg)
			return true
		}
	}
	return false
}

// ---------------------------------------------------------------------------------

type replayCase struct {
	Kind  string            `json:"kind"` // enum | struct | doc
	Type  string            `json:"type"`
	Value int               `json:"value"`
	Pat   map[string]string `json:"pat"`
	Val   map[string]any    `json:"val"`
	Edit  map[string]string `json:"edit"`
}

func main() {
	if len(os.Args) < 3 {
		obs.Fatal("usage: c33 enum|struct|docs|random|one ...")
	}
	switch os.Args[1] {
	case "enum":
		cmdEnum(os.Args[2])
	case "struct":
		if len(os.Args) < 4 {
			obs.Fatal("usage: c33 struct cases out")
		}
		cmdStruct(os.Args[2], os.Args[3])
	case "docs":
		if len(os.Args) < 4 {
			obs.Fatal("usage: c33 docs cases out")
		}
		cmdDocs(os.Args[2], os.Args[3])
	case "random":
		if len(os.Args) < 4 {
			obs.Fatal("usage: c33 random out n")
		}
		n, _ := strconv.Atoi(os.Args[3])
		cmdRandom(os.Args[2], n)
	case "one":
		if len(os.Args) < 4 {
			obs.Fatal("usage: c33 one replay out")
		}
		var rc replayCase
		obs.ReadReplay(os.Args[2], &rc)
		w := obs.NewWriter(os.Args[3])
		switch rc.Kind {
		case "enum":
			if !enumOne(rc.Type, rc.Value, w) {
				obs.Fatal("unknown enum type %q", rc.Type)
			}
		case "struct":
			st := findStruct(rc.Type)
			if st == nil {
				obs.Fatal("unknown struct type %q", rc.Type)
			}
			o := runStruct(st, 0, rc.Pat, rc.Val)
			w.Write(o)
			fmt.Fprintf(os.Stderr, "struct %s: status %d %s encoded %s\n", rc.Type, o.St, o.Msg, o.Enc)
		case "doc":
			st := findStruct(rc.Type)
			if st == nil {
				obs.Fatal("unknown struct type %q", rc.Type)
			}
			o := runDoc(st, 0, rc.Edit, rc.Val)
			w.Write(o)
		default:
			obs.Fatal("unknown replay kind %q", rc.Kind)
		}
		w.Close()
	default:
		obs.Fatal("unknown subcommand %q", os.Args[1])
	}
}

func sortedKeys(m map[string]json.RawMessage) []string {
	ks := make([]string, 0, len(m))
	for k := range m {
		ks = append(ks, k)
	}
	sort.Strings(ks)
	return ks
}
