// c31: conformance harness binding the ticket layer of spec/TLSHandshake.tla (TicketDemand,
// Judge31) to real zcrypto client/server pairs.  A case is a ticket history: a full handshake
// issues a ticket under the head of a key list, the server's keys are administered with
// SetSessionTicketKeys, the adversary rewrites the ticket bytes in the client's cache (through
// the verif accessor), and a second connection presents the result.  The harness only executes
// and observes; TLC judges.
//
//	c31 probe                         ticket lengths per version (constants of the generator)
//	c31 run <cases.ndjson> <obs.ndjson>
//	c31 random <n> <cases.ndjson>     seeded random histories / mutations
//	c31 run-one <replay.json> <obs.ndjson>
package main

import (
	"crypto/sha256"
	"encoding/json"
	"fmt"
	"math/rand"
	"os"
	"strconv"
	"sync"

	"github.com/zmap/zcrypto/tls"
	"verifharness/lib/obs"
	"verifharness/lib/tlsh"
)

type HistOp struct {
	Op string `json:"op"` // "rot" (prepend key k), "drop" (keep only the head), "droplast", "set" (replace by [k])
	K  int    `json:"k"`
}

type Mut struct {
	Kind  string `json:"kind"`  // none flip flipat trunc extend foreign swapname splice zero
	Part  string `json:"part"`  // flip: name iv body mac
	Where int    `json:"where"` // flip: 0 first, 1 middle, 2 last byte of the part
	Mask  int    `json:"mask"`  // flip / flipat: xor mask
	N     int    `json:"n"`     // trunc: new length (negative: from the end); extend: bytes added; flipat: position
}

type Case31 struct {
	ID     int      `json:"id"`
	Vers   int      `json:"vers"` // 12 or 13
	Key    string   `json:"key"`
	Keys0  []int    `json:"keys0"`
	Hist   []HistOp `json:"hist"`
	Mut    Mut      `json:"mut"`
	Change string   `json:"change"` // none server_max_lower server_drops_suite
}

type Conn struct {
	CDone  bool   `json:"cdone"`
	SDone  bool   `json:"sdone"`
	CRes   bool   `json:"cres"`
	SRes   bool   `json:"sres"`
	CVers  int    `json:"cvers"`
	SVers  int    `json:"svers"`
	CSuite int    `json:"csuite"`
	SSuite int    `json:"ssuite"`
	EkmEq  bool   `json:"ekmeq"`
	DataOK bool   `json:"dataok"`
	CPanic bool   `json:"cpanic"`
	SPanic bool   `json:"spanic"`
	CHang  bool   `json:"chang"`
	SHang  bool   `json:"shang"`
	CErr   string `json:"cerr"`
	SErr   string `json:"serr"`
}

type Rec struct {
	Case31
	Issue     Conn `json:"issue"`
	Present   Conn `json:"present"`
	Presented bool `json:"presented"`  // the second ClientHello carried ticket bytes
	TicketLen int  `json:"ticket_len"` // length of the issued ticket
	Changed   bool `json:"changed"`    // the presented bytes differ from the issued ones
	Applied   bool `json:"applied"`    // the mutation was applicable to this ticket
	PLen      int  `json:"plen"`       // length of the presented bytes
}

func conn(r *tlsh.Result) Conn {
	o := tlsh.Observe(r)
	return Conn{CDone: o.CDone, SDone: o.SDone, CRes: o.CRes, SRes: o.SRes, CVers: o.CVers, SVers: o.SVers,
		CSuite: o.CSuite, SSuite: o.SSuite, EkmEq: o.EkmEq, DataOK: o.DataOK, CPanic: o.CPanic, SPanic: o.SPanic,
		CHang: o.CHang, SHang: o.SHang, CErr: o.CErr, SErr: o.SErr}
}

// mapCache is a ClientSessionCache the harness can read and rewrite.
type mapCache struct {
	mu sync.Mutex
	m  map[string]*tls.ClientSessionState
}

func (c *mapCache) Get(k string) (*tls.ClientSessionState, bool) {
	c.mu.Lock()
	defer c.mu.Unlock()
	s, ok := c.m[k]
	return s, ok
}
func (c *mapCache) Put(k string, s *tls.ClientSessionState) {
	c.mu.Lock()
	defer c.mu.Unlock()
	if s == nil {
		delete(c.m, k)
	} else {
		c.m[k] = s
	}
}

func ticketKey(k int) [32]byte { return sha256.Sum256([]byte(fmt.Sprintf("verif ticket key %d", k))) }

func keyList(ks []int) [][32]byte {
	out := make([][32]byte, len(ks))
	for i, k := range ks {
		out[i] = ticketKey(k)
	}
	return out
}

func applyHist(keys []int, h HistOp) []int {
	switch h.Op {
	case "rot":
		return append([]int{h.K}, keys...)
	case "drop":
		return keys[:1]
	case "droplast":
		if len(keys) > 1 {
			return keys[:len(keys)-1]
		}
		return keys
	case "set":
		return []int{h.K}
	}
	obs.Fatal("unknown history op %q", h.Op)
	return nil
}

// mutate applies the adversary's rewriting to the issued ticket; foreign is a ticket another
// server (other keys) issued for an equivalent session.
func mutate(t []byte, foreign []byte, m Mut) (out []byte, applied bool) {
	n := len(t)
	out = append([]byte(nil), t...)
	part := func(name string) (int, int) {
		switch name {
		case "name":
			return 0, 16
		case "iv":
			return 16, 32
		case "body":
			return 32, n - 32
		case "mac":
			return n - 32, n
		}
		obs.Fatal("unknown ticket part %q", name)
		return 0, 0
	}
	switch m.Kind {
	case "none":
		return out, true
	case "flip":
		a, b := part(m.Part)
		if b <= a || m.Mask&0xff == 0 {
			return out, false
		}
		pos := []int{a, (a + b) / 2, b - 1}[m.Where]
		out[pos] ^= byte(m.Mask)
		return out, true
	case "flipat":
		if m.N >= n || m.Mask&0xff == 0 {
			return out, false
		}
		out[m.N] ^= byte(m.Mask)
		return out, true
	case "trunc":
		k := m.N
		if k < 0 {
			k = n + k
		}
		if k < 0 || k >= n {
			return out, false
		}
		return out[:k], true
	case "extend":
		for i := 0; i < m.N; i++ {
			out = append(out, byte(i*37+1))
		}
		return out, m.N > 0
	case "foreign":
		return append([]byte(nil), foreign...), true
	case "swapname": // foreign ticket carrying our key name
		f := append([]byte(nil), foreign...)
		copy(f[:16], t[:16])
		return f, true
	case "splice": // our name, iv and mac around a foreign body
		if len(foreign) != n {
			return out, false
		}
		copy(out[32:n-32], foreign[32:n-32])
		return out, true
	case "zero":
		for i := range out {
			out[i] = 0
		}
		return out, true
	}
	obs.Fatal("unknown mutation %q", m.Kind)
	return nil, false
}

func bytesEqual(a, b []byte) bool {
	if len(a) != len(b) {
		return false
	}
	for i := range a {
		if a[i] != b[i] {
			return false
		}
	}
	return true
}

func runCase(cs Case31) Rec {
	rec := Rec{Case31: cs}
	if rec.Hist == nil {
		rec.Hist = []HistOp{}
	}
	ep := tlsh.EP{Min: 10, Max: cs.Vers, Tickets: true}
	if cs.Change != "" && cs.Change != "none" && cs.Vers <= 12 {
		// an explicit list of suites usable with every TLS version on both sides, so that a side
		// can drop the session's suite later and a lower version could still use it
		ep.Suites = []int{49171, 49161, 47, 53, 49172, 49162}
	}
	abs := tlsh.Case{ID: cs.ID, C: ep.NonNil(), S: ep.NonNil()}
	abs.S.Key = cs.Key
	abs.S.Tickets = true
	b, err := tlsh.Build(abs, true)
	if err != nil {
		obs.Fatal("case %d: %v", cs.ID, err)
	}
	cache := &mapCache{m: map[string]*tls.ClientSessionState{}}
	b.Client.ClientSessionCache = cache
	keys := append([]int(nil), cs.Keys0...)
	b.Server.SetSessionTicketKeys(keyList(keys))

	// a foreign server: same configuration, unrelated ticket keys
	fb, _ := tlsh.Build(abs, true)
	fcache := &mapCache{m: map[string]*tls.ClientSessionState{}}
	fb.Client.ClientSessionCache = fcache
	fb.Server.SetSessionTicketKeys(keyList([]int{1000 + cs.ID%7}))

	r1 := tlsh.Run(b.Client, b.Server, tlsh.RunOpt{})
	rec.Issue = conn(r1)
	sess, ok := cache.Get(tlsh.ServerName)
	if !ok || sess == nil {
		// no ticket was issued: nothing to present (TLC sees issue.* and judges)
		return rec
	}
	info := tls.VerifHSSessionGet(sess)
	rec.TicketLen = len(info.Ticket)
	var foreign []byte
	if cs.Mut.Kind == "foreign" || cs.Mut.Kind == "swapname" || cs.Mut.Kind == "splice" {
		tlsh.Run(fb.Client, fb.Server, tlsh.RunOpt{})
		if fs, ok := fcache.Get(tlsh.ServerName); ok && fs != nil {
			foreign = tls.VerifHSSessionGet(fs).Ticket
		}
		if len(foreign) == 0 {
			obs.Fatal("case %d: foreign server issued no ticket", cs.ID)
		}
	}
	nt, applied := mutate(info.Ticket, foreign, cs.Mut)
	rec.Applied = applied
	rec.Changed = !bytesEqual(nt, info.Ticket)
	rec.PLen = len(nt)
	cache.Put(tlsh.ServerName, tls.VerifHSSessionWithTicket(sess, nt))
	// concretisation check: the cache now presents exactly the rewritten bytes
	if s2, _ := cache.Get(tlsh.ServerName); !bytesEqual(tls.VerifHSSessionGet(s2).Ticket, nt) {
		obs.Fatal("case %d: ticket accessor did not store the rewritten bytes", cs.ID)
	}

	for _, h := range cs.Hist {
		keys = applyHist(keys, h)
		b.Server.SetSessionTicketKeys(keyList(keys))
	}
	srv, cli := b.Server, b.Client
	switch cs.Change {
	case "", "none":
	case "server_max_lower":
		srv = b.Server.Clone()
		srv.MaxVersion = map[int]uint16{12: tls.VersionTLS11, 13: tls.VersionTLS12}[cs.Vers]
	case "server_drops_suite":
		srv = b.Server.Clone()
		var keep []uint16
		for _, s := range srv.CipherSuites {
			if int(s) != rec.Issue.SSuite {
				keep = append(keep, s)
			}
		}
		srv.CipherSuites = keep
	case "client_drops_suite":
		// the client stops offering the session's suite but its cache entry (rewritten through the
		// verif accessor) still makes it present the ticket
		cli = b.Client.Clone()
		var keep []uint16
		for _, s := range cli.CipherSuites {
			if int(s) != rec.Issue.SSuite {
				keep = append(keep, s)
			}
		}
		cli.CipherSuites = keep
		cur, _ := cache.Get(tlsh.ServerName)
		for _, s := range keep { // a suite of the same key exchange class keeps the hello plausible
			if (int(s) == 49171 || int(s) == 49172 || int(s) == 47 || int(s) == 53) == (cs.Key == "R") {
				cache.Put(tlsh.ServerName, tls.VerifHSSessionWithSuite(cur, s))
				break
			}
		}
	default:
		obs.Fatal("unknown change %q", cs.Change)
	}
	var sentTicket bool
	filter := func(dir, idx int, recBytes []byte) *tlsh.Action {
		if dir == tlsh.C2S && idx == 0 && len(recBytes) > 9 {
			if h, err := tlsh.ParseClientHello(recBytes[9:]); err == nil {
				if d, ok := h.Ext(35); ok && len(d) > 0 {
					sentTicket = true
				}
				if _, ok := h.Ext(41); ok {
					sentTicket = true
				}
			}
		}
		return nil
	}
	r2 := tlsh.Run(cli, srv, tlsh.RunOpt{Filter: filter})
	rec.Present = conn(r2)
	rec.Presented = sentTicket
	return rec
}

func randomCase(r *rand.Rand, id int) Case31 {
	cs := Case31{ID: id, Vers: 12 + r.Intn(2), Key: []string{"R", "P", "E", "E", "Q"}[r.Intn(5)], Change: "none"}
	cs.Keys0 = [][]int{{1}, {2, 1}, {3, 2, 1}}[r.Intn(3)]
	next := 10
	for i := r.Intn(4); i > 0; i-- {
		switch r.Intn(4) {
		case 0, 1:
			cs.Hist = append(cs.Hist, HistOp{Op: "rot", K: next})
			next++
		case 2:
			cs.Hist = append(cs.Hist, HistOp{Op: "drop"})
		default:
			cs.Hist = append(cs.Hist, HistOp{Op: "droplast"})
		}
	}
	if cs.Hist == nil {
		cs.Hist = []HistOp{}
	}
	switch r.Intn(10) {
	case 0, 1, 2:
		cs.Mut = Mut{Kind: "none"}
	case 3, 4, 5, 6:
		cs.Mut = Mut{Kind: "flipat", N: r.Intn(260), Mask: 1 + r.Intn(255)}
	case 7:
		cs.Mut = Mut{Kind: "trunc", N: r.Intn(260)}
	case 8:
		cs.Mut = Mut{Kind: []string{"foreign", "swapname", "splice", "zero"}[r.Intn(4)]}
	default:
		cs.Mut = Mut{Kind: "extend", N: 1 + r.Intn(40)}
	}
	if r.Intn(8) == 0 {
		cs.Change = "server_max_lower"
		if cs.Key == "E" { // Ed25519 certificates cannot be used below TLS 1.2
			cs.Key = "P"
		}
	}
	return cs
}

func main() {
	if len(os.Args) < 2 {
		obs.Fatal("usage")
	}
	switch os.Args[1] {
	case "facts":
		b, _ := json.Marshal(tlsh.GetFacts())
		fmt.Println(string(b))
	case "probe":
		out := map[string]int{}
		for _, v := range []int{12, 13} {
			r := runCase(Case31{ID: 1, Vers: v, Key: "E", Keys0: []int{1}, Mut: Mut{Kind: "none"}, Change: "none"})
			if r.TicketLen == 0 {
				obs.Fatal("probe: TLS 1.%d issues no ticket (%+v)", v-10, r)
			}
			out[fmt.Sprintf("len%d", v)] = r.TicketLen
		}
		b, _ := json.Marshal(out)
		fmt.Println(string(b))
	case "random":
		n, _ := strconv.Atoi(os.Args[2])
		w := obs.NewWriter(os.Args[3])
		r := rand.New(rand.NewSource(obs.Seed()))
		for i := 0; i < n; i++ {
			w.Write(randomCase(r, i+1))
		}
		w.Close()
		obs.Stat("cases", n)
	case "run":
		var cases []Case31
		tlsh.ReadCases(os.Args[2], func(line []byte) error {
			var c Case31
			if err := json.Unmarshal(line, &c); err != nil {
				return err
			}
			cases = append(cases, c)
			return nil
		})
		recs := make([]Rec, len(cases))
		tlsh.Parallel(len(cases), func(i int) { recs[i] = runCase(cases[i]) })
		w := obs.NewWriter(os.Args[3])
		resumed := 0
		for _, r := range recs {
			w.Write(r)
			if r.Present.SRes {
				resumed++
			}
		}
		w.Close()
		obs.Stat("cases", len(cases))
		obs.Stat("resumed", resumed)
	case "runa":
		var cases []CaseA
		tlsh.ReadCases(os.Args[2], func(line []byte) error {
			var c CaseA
			if err := json.Unmarshal(line, &c); err != nil {
				return err
			}
			cases = append(cases, c)
			return nil
		})
		recs := make([]RecA, len(cases))
		tlsh.Parallel(len(cases), func(i int) { recs[i] = runAuto(cases[i]) })
		w := obs.NewWriter(os.Args[3])
		for _, r := range recs {
			w.Write(r)
		}
		w.Close()
		obs.Stat("cases", len(cases))
	case "runa-one":
		var c CaseA
		obs.ReadReplay(os.Args[2], &c)
		w := obs.NewWriter(os.Args[3])
		w.Write(runAuto(c))
		w.Close()
	case "run-one":
		var c Case31
		obs.ReadReplay(os.Args[2], &c)
		w := obs.NewWriter(os.Args[3])
		w.Write(runCase(c))
		w.Close()
	default:
		obs.Fatal("unknown command")
	}
}
