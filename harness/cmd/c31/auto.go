package main

// Automatic ticket-key rotation (no SetSessionTicketKeys / SessionTicketKey): one server Config whose
// Config.Time the harness advances over a history of 3-4 connection times spanning more than seven
// days.  Every connection but the last is a plain full handshake with a fresh client (it drives the
// rotation); the ticket obtained at connection `issue` is presented at the last connection - as
// issued, or replaced by a ticket the adversary sealed (same wire format, written here with
// crypto/aes + crypto/hmac only) under key material of its choosing: all zero, all 0xFF, or a
// public value (the key name of the genuine ticket), around a session state that carries the
// secret the client holds, so that an accepted forgery completes.  TLC (Judge31A) judges.

import (
	"crypto/aes"
	"crypto/cipher"
	"crypto/hmac"
	"crypto/sha256"
	"time"

	"github.com/zmap/zcrypto/tls"
	"verifharness/lib/obs"
	"verifharness/lib/pki"
	"verifharness/lib/tlsh"
)

type CaseA struct {
	ID    int    `json:"id"`
	Vers  int    `json:"vers"`  // 12 or 13
	Times []int  `json:"times"` // connection times in hours, increasing
	Issue int    `json:"issue"` // 1-based index of the connection whose ticket is presented at the last one
	Forge string `json:"forge"` // none zero ff public
}

type RecA struct {
	CaseA
	Issue_    Conn `json:"issued"`  // the issuing connection
	Present   Conn `json:"present"` // the last connection
	Presented bool `json:"presented"`
	TicketLen int  `json:"ticket_len"`
	AllFull   bool `json:"all_full"` // every rotation-driving connection completed as a full handshake
}

func u16(b []byte, v int) []byte { return append(b, byte(v>>8), byte(v)) }
func u64(b []byte, v uint64) []byte {
	for i := 7; i >= 0; i-- {
		b = append(b, byte(v>>(8*uint(i))))
	}
	return b
}

// sealTicket writes a ticket in zcrypto's wire format (key name | IV | AES-CTR(state) | HMAC-SHA256)
// under raw key material chosen by the adversary.
func sealTicket(name [16]byte, aesKey, hmacKey [16]byte, state []byte) []byte {
	out := append([]byte(nil), name[:]...)
	iv := sha256.Sum256(state)
	out = append(out, iv[:16]...)
	block, err := aes.NewCipher(aesKey[:])
	if err != nil {
		obs.Fatal("aes: %v", err)
	}
	ct := make([]byte, len(state))
	cipher.NewCTR(block, iv[:16]).XORKeyStream(ct, state)
	out = append(out, ct...)
	m := hmac.New(sha256.New, hmacKey[:])
	m.Write(out)
	return m.Sum(out)
}

// sessionStateBytes is the plaintext of a ticket: tls.sessionState (TLS <= 1.2) or
// tls.sessionStateTLS13, without client certificates.
func sessionStateBytes(vers uint16, suite uint16, createdAt uint64, secret []byte) []byte {
	var b []byte
	if vers == tls.VersionTLS13 {
		b = u16(b, int(tls.VersionTLS13))
		b = append(b, 0)
		b = u16(b, int(suite))
		b = u64(b, createdAt)
		b = append(b, byte(len(secret)))
		b = append(b, secret...)
		return append(b, 0, 0, 0) // empty certificate list
	}
	b = u16(b, int(vers))
	b = u16(b, int(suite))
	b = u64(b, createdAt)
	b = u16(b, len(secret))
	b = append(b, secret...)
	return append(b, 0, 0, 0)
}

func runAuto(cs CaseA) RecA {
	rec := RecA{CaseA: cs, AllFull: true}
	ep := tlsh.EP{Min: 10, Max: cs.Vers, Tickets: true}
	abs := tlsh.Case{ID: cs.ID, C: ep.NonNil(), S: ep.NonNil()}
	abs.S.Key = "E"
	// the leaf of the harness PKI lives for minutes; these histories span days, so the client does not
	// verify (the property is about the server's decision)
	b, err := tlsh.Build(abs, false)
	if err != nil {
		obs.Fatal("case %d: %v", cs.ID, err)
	}
	hours := 0
	clock := func() time.Time { return pki.At(tlsh.TNow).Add(time.Duration(hours) * time.Hour) }
	b.Server.Time = clock // automatic rotation: no SetSessionTicketKeys, zero SessionTicketKey
	var kept *tls.ClientSessionState
	n := len(cs.Times)
	for k, t := range cs.Times {
		hours = t
		cc := b.Client.Clone()
		cc.Time = clock
		cache := &mapCache{m: map[string]*tls.ClientSessionState{}}
		cc.ClientSessionCache = cache
		last := k == n-1
		if last {
			if kept == nil {
				return rec // no ticket was issued at `issue`: TLC sees ticket_len = 0
			}
			info := tls.VerifHSSessionGet(kept)
			present := kept
			if cs.Forge != "none" {
				var name, ak, hk [16]byte
				switch cs.Forge {
				case "zero":
				case "ff":
					for i := range name {
						name[i], ak[i], hk[i] = 0xff, 0xff, 0xff
					}
				case "public": // a value everybody sees: the key name of the genuine ticket
					copy(name[:], info.Ticket[:16])
					ak, hk = name, name
				default:
					obs.Fatal("unknown forgery %q", cs.Forge)
				}
				state := sessionStateBytes(info.Vers, info.CipherSuite, uint64(clock().Unix()), info.Secret)
				present = tls.VerifHSSessionWithTicket(kept, sealTicket(name, ak, hk, state))
			}
			cache.Put(tlsh.ServerName, present)
		}
		sent := false
		filter := func(dir, idx int, recBytes []byte) *tlsh.Action {
			if dir == tlsh.C2S && idx == 0 && len(recBytes) > 9 {
				if h, err := tlsh.ParseClientHello(recBytes[9:]); err == nil {
					if d, ok := h.Ext(35); ok && len(d) > 0 {
						sent = true
					}
					if _, ok := h.Ext(41); ok {
						sent = true
					}
				}
			}
			return nil
		}
		r := tlsh.Run(cc, b.Server, tlsh.RunOpt{Filter: filter})
		c := conn(r)
		if last {
			rec.Present, rec.Presented = c, sent
			break
		}
		if !(c.CDone && c.SDone) || c.SRes {
			rec.AllFull = false
		}
		if k+1 == cs.Issue {
			rec.Issue_ = c
			if s, ok := cache.Get(tlsh.ServerName); ok && s != nil {
				kept = s
				rec.TicketLen = len(tls.VerifHSSessionGet(s).Ticket)
			}
		}
	}
	return rec
}
