// c35: conformance harness binding LRU.tla to tls.NewLRUClientSessionCache.
//
//	c35 replay-gen <histories.ndjson>   TLC-generated histories with demanded Get results
//	c35 replay <replay.json>            one history (exit 1 if the real cache disagrees)
//	c35 record <out.ndjson> <traces> <len>   seeded random histories on the real cache -> events
//	c35 record-one <replay.json> <out.ndjson> re-record one history for TLC
package main

import (
	"encoding/json"
	"fmt"
	"math/rand"
	"os"
	"strconv"
	"sync"

	"github.com/zmap/zcrypto/tls"
	"verifharness/lib/obs"
)

type Op struct {
	Op   string   `json:"op"`
	K    string   `json:"k"`
	V    int      `json:"v"`
	RV   int      `json:"rv"`
	OK   bool     `json:"ok"`
}

type History struct {
	Cap    int  `json:"cap"`
	Ops    []Op `json:"ops"`
	NT     bool `json:"nt"`     // non-trivial, as computed by the specification
	NilAbs bool `json:"nilabs"` // contains a nil Put of an absent key (computed by the specification)
}

// sessions: value id -> distinct pointer; id 0 is the nil session
var sessions = map[int]*tls.ClientSessionState{}
var ids = map[*tls.ClientSessionState]int{}

func sess(id int) *tls.ClientSessionState {
	if id == 0 {
		return nil
	}
	if s, ok := sessions[id]; ok {
		return s
	}
	s := new(tls.ClientSessionState)
	sessions[id] = s
	ids[s] = id
	return s
}

func idOf(s *tls.ClientSessionState) int {
	if s == nil {
		return 0
	}
	if id, ok := ids[s]; ok {
		return id
	}
	return -1
}

// runHistory executes h on a fresh real cache; returns index of the first step whose
// observed result differs from the demanded one, or -1.
func runHistory(h History) (int, string) {
	c := tls.NewLRUClientSessionCache(h.Cap)
	for i, op := range h.Ops {
		switch op.Op {
		case "put":
			c.Put(op.K, sess(op.V))
		case "get":
			s, ok := c.Get(op.K)
			if idOf(s) != op.RV || ok != op.OK {
				return i, fmt.Sprintf("step %d Get(%q): real (%d,%v), specification demands (%d,%v)", i+1, op.K, idOf(s), ok, op.RV, op.OK)
			}
		default:
			obs.Fatal("unknown op %q", op.Op)
		}
	}
	return -1, ""
}

// classify gives the violation a signature that is specific to the failing pattern; the
// abstract facts about the history come from the specification (History.NilAbs).
func classify(h History, at int) map[string]any {
	op := h.Ops[at]
	kind := "phantom-entry" // spec: absent, real: present
	if op.OK {
		kind = "missing-or-wrong-entry" // spec: present with a value, real: absent or other value
	}
	return map[string]any{"kind": kind, "after_nil_put_of_absent_key": h.NilAbs}
}

func main() {
	if len(os.Args) < 3 {
		obs.Fatal("usage")
	}
	switch os.Args[1] {
	case "replay-gen":
		n, bad, nontriv := 0, 0, 0
		seen := map[string]bool{}
		err := obs.ReadLines(os.Args[2], func(line []byte) error {
			var h History
			// TLC prints ToJson output as a quoted TLA+ string
			if line[0] == '"' {
				var s string
				if err := json.Unmarshal(line, &s); err != nil {
					return err
				}
				line = []byte(s)
			}
			if err := json.Unmarshal(line, &h); err != nil {
				return err
			}
			n++
			if nontrivial(h) {
				nontriv++
			}
			if at, what := runHistory(h); at >= 0 {
				bad++
				h.Ops = h.Ops[:at+1]
				sig := classify(h, at)
				k, _ := json.Marshal(sig)
				if !seen[string(k)] {
					seen[string(k)] = true
					obs.Emit(obs.Candidate{Sig: sig, What: what, Case: h})
				}
			}
			return nil
		})
		if err != nil {
			obs.Fatal("%v", err)
		}
		obs.Stat("histories", n)
		obs.Stat("nontrivial", nontriv)
		obs.Stat("disagreements", bad)
	case "replay":
		var h History
		obs.ReadReplay(os.Args[2], &h)
		if at, what := runHistory(h); at >= 0 {
			fmt.Println("REPRODUCED:", what)
			os.Exit(1)
		}
		fmt.Println("not reproduced")
	case "record":
		traces, _ := strconv.Atoi(os.Args[3])
		ln, _ := strconv.Atoi(os.Args[4])
		w := obs.NewWriter(os.Args[2])
		rng := rand.New(rand.NewSource(obs.Seed()))
		for t := 0; t < traces; t++ {
			cp := 1 + rng.Intn(4)
			if rng.Intn(10) == 0 {
				cp = 5 + rng.Intn(8)
			}
			nk := cp + 1 + rng.Intn(3)
			var ops []Op
			for i := 0; i < ln; i++ {
				k := fmt.Sprintf("k%d", rng.Intn(nk))
				switch r := rng.Intn(10); {
				case r < 4:
					ops = append(ops, Op{Op: "get", K: k})
				case r < 6:
					ops = append(ops, Op{Op: "put", K: k, V: 0})
				default:
					ops = append(ops, Op{Op: "put", K: k, V: 1 + rng.Intn(6)})
				}
			}
			// drain: membership of every key at the end
			for i := 0; i < nk; i++ {
				ops = append(ops, Op{Op: "get", K: fmt.Sprintf("k%d", i)})
			}
			record(w, History{Cap: cp, Ops: ops})
		}
		w.Close()
		obs.Stat("events", w.N)
	case "record-one":
		var h History
		obs.ReadReplay(os.Args[2], &h)
		w := obs.NewWriter(os.Args[3])
		record(w, h)
		w.Close()
	case "conc":
		// conc <out.ndjson> <traces> <goroutines> <ops per goroutine>: overlapping calls from
		// several goroutines on one real cache; "call" is logged before the call starts and
		// "ret" after it returned, both under the recorder's lock (real-time order).
		traces, _ := strconv.Atoi(os.Args[3])
		ng, _ := strconv.Atoi(os.Args[4])
		nops, _ := strconv.Atoi(os.Args[5])
		w := obs.NewWriter(os.Args[2])
		rng := rand.New(rand.NewSource(obs.Seed()))
		for t := 0; t < traces; t++ {
			concTrace(w, rng.Int63(), 1+rng.Intn(3), ng, nops)
		}
		w.Close()
		obs.Stat("events", w.N)
	default:
		obs.Fatal("unknown command")
	}
}

func concTrace(w *obs.Writer, seed int64, cp, ng, nops int) {
	for id := 1; id <= 6; id++ {
		sess(id) // allocate the session identities before goroutines start
	}
	c := tls.NewLRUClientSessionCache(cp)
	var mu sync.Mutex
	log := func(v map[string]any) {
		mu.Lock()
		w.Write(v)
		mu.Unlock()
	}
	log(map[string]any{"ev": "reset", "cap": cp})
	var wg sync.WaitGroup
	for g := 1; g <= ng; g++ {
		wg.Add(1)
		go func(g int) {
			defer wg.Done()
			rng := rand.New(rand.NewSource(seed + int64(g)*7919))
			for i := 0; i < nops; i++ {
				k := fmt.Sprintf("k%d", rng.Intn(cp+2))
				switch r := rng.Intn(10); {
				case r < 5:
					log(map[string]any{"ev": "call", "g": g, "op": "get", "k": k, "v": 0})
					s, ok := c.Get(k)
					log(map[string]any{"ev": "ret", "g": g, "rv": idOf(s), "ok": ok})
				default:
					v := 0
					if r < 9 {
						v = 1 + rng.Intn(6)
					}
					log(map[string]any{"ev": "call", "g": g, "op": "put", "k": k, "v": v})
					c.Put(k, sessions[v])
					log(map[string]any{"ev": "ret", "g": g, "rv": 0, "ok": false})
				}
			}
		}(g)
	}
	wg.Wait()
}

func nontrivial(h History) bool { return h.NT }

// record runs the ops on the real cache and logs what it returned.
func record(w *obs.Writer, h History) {
	c := tls.NewLRUClientSessionCache(h.Cap)
	w.Write(map[string]any{"ev": "reset", "cap": h.Cap})
	for _, op := range h.Ops {
		switch op.Op {
		case "put":
			c.Put(op.K, sess(op.V))
			w.Write(map[string]any{"ev": "put", "k": op.K, "v": op.V})
		case "get":
			s, ok := c.Get(op.K)
			w.Write(map[string]any{"ev": "get", "k": op.K, "rv": idOf(s), "ok": ok})
		}
	}
}
