// c20: conformance harness for C20 (permissive parsing is a conservative extension of strict
// parsing).  Every input is decoded twice by the real code - encoding/asn1.AllowPermissiveParsing
// off, then on - and both outcomes are logged (accepted?, bytes consumed, digest of the decoded
// value); TLC (Trace_Perm.tla) holds the implication.  Nothing is judged here.
//
//	c20 der-cases <cases.ndjson> <out.ndjson> <stride>  C19 corpus (DERGen.tla cases) x asn1 targets
//	c20 structs <out.ndjson> <n>                        struct target types, seeded mutated encodings
//	c20 certs <out.ndjson> <n>                          ParseCertificate: seeds + seeded mutants
//	c20 one <replay.json> <out.ndjson>                  re-record one input
package main

import (
	"crypto/sha256"
	"encoding/base64"
	"encoding/hex"
	"encoding/json"
	"fmt"
	"math/big"
	"math/rand"
	"os"
	"sort"
	"strconv"
	"time"

	"github.com/zmap/zcrypto/encoding/asn1"
	"github.com/zmap/zcrypto/x509"
	"github.com/zmap/zcrypto/x509/pkix"
	"verifharness/lib/der"
	d "verifharness/lib/dertree"
	"verifharness/lib/inputs"
	"verifharness/lib/obs"
	"verifharness/lib/pki"
)

// Outcome of one decode in one mode.
type Outcome struct {
	Ok    bool
	N     int
	Dig   string            // digest of the whole decoded value
	F     map[string]string // digests of named parts of the value (which part differs)
	Panic bool
}

func digest(parts ...[]byte) string {
	h := sha256.New()
	for _, p := range parts {
		fmt.Fprintf(h, "%d:", len(p))
		h.Write(p)
	}
	return hex.EncodeToString(h.Sum(nil))[:24]
}

func project(v any) []byte {
	b, err := json.Marshal(v)
	if err != nil {
		return []byte(fmt.Sprintf("json error: %v / %+v", err, v))
	}
	return b
}

// decoder: decode input into a fresh value, return ok, consumed, named projection parts.
type decoder func(in []byte) (bool, int, map[string][]byte)

func one(b ...[]byte) map[string][]byte {
	m := map[string][]byte{}
	for i, x := range b {
		m["value"+strconv.Itoa(i)] = x
	}
	return m
}

func both(dec decoder, in []byte) (s, p Outcome) {
	run := func(perm bool) (o Outcome) {
		defer func() {
			der.SetPermissive(false)
			if r := recover(); r != nil {
				o = Outcome{Panic: true, Dig: fmt.Sprint(r)}
			}
		}()
		der.SetPermissive(perm)
		ok, n, parts := dec(in)
		if !ok {
			return Outcome{}
		}
		o = Outcome{Ok: true, N: n, F: map[string]string{}}
		keys := make([]string, 0, len(parts))
		for k := range parts {
			keys = append(keys, k)
		}
		sort.Strings(keys)
		var all [][]byte
		for _, k := range keys {
			o.F[k] = digest(parts[k])
			all = append(all, []byte(k), parts[k])
		}
		o.Dig = digest(all...)
		return o
	}
	return run(false), run(true)
}

// write logs one observation for TLC and, line-aligned in a side file, the input (for replay).
func write(w *obs.Writer, src, id, target string, in []byte, s, p Outcome) {
	w.Write(map[string]any{"src": src, "id": id, "target": target, "len": len(in),
		"s_ok": s.Ok, "s_n": s.N, "s_dig": s.Dig, "s_panic": s.Panic, "s_f": nzm(s.F),
		"p_ok": p.Ok, "p_n": p.N, "p_dig": p.Dig, "p_panic": p.Panic, "p_f": nzm(p.F)})
	if side != nil {
		side.Write(map[string]any{"src": src, "id": id, "target": target, "in": base64.StdEncoding.EncodeToString(in)})
	}
}

func nzm(m map[string]string) map[string]string {
	if m == nil {
		return map[string]string{}
	}
	return m
}

var side *obs.Writer

func open(path string) *obs.Writer {
	side = obs.NewWriter(path + ".in")
	return obs.NewWriter(path)
}

func closeAll(w *obs.Writer) {
	w.Close()
	if side != nil {
		side.Close()
	}
}

// ---------------------------------------------------------------- corpus A: C19 cases

type Case struct {
	K    string `json:"k"`
	B    []int  `json:"b"`
	Fill int    `json:"fill"`
}

func derTargets(kind string) []der.Target {
	var r []der.Target
	for _, t := range der.Targets(kind) {
		if len(t.Name) > 5 && t.Name[:5] == "asn1." {
			r = append(r, t)
		}
	}
	return r
}

func targetDecoder(t *der.Target) decoder {
	return func(in []byte) (bool, int, map[string][]byte) {
		o := t.Run(in)
		if o.Panic != "" {
			panic(o.Panic)
		}
		return o.Acc, o.N, map[string][]byte{"value": project(o.Val), "reencoded": o.Re}
	}
}

// ---------------------------------------------------------------- corpus B: struct targets

type validity struct{ NotBefore, NotAfter time.Time }
type mixed struct {
	Version int `asn1:"optional,explicit,default:0,tag:0"`
	Serial  *big.Int
	Name    string `asn1:"ia5"`
	Flag    bool   `asn1:"optional"`
	Bits    asn1.BitString
	Blob    []byte
	When    time.Time `asn1:"generalized"`
}
type strs struct {
	P string `asn1:"printable"`
	U string `asn1:"utf8"`
	N string `asn1:"numeric"`
	A []string
	I interface{}
}
type nested struct {
	Alg  pkix.AlgorithmIdentifier
	Exts []pkix.Extension `asn1:"optional,explicit,tag:3"`
	Oids []asn1.ObjectIdentifier
	Set  []int         `asn1:"set"`
	Tail asn1.RawValue `asn1:"optional"`
}

type structTarget struct {
	Name string
	Seed func() any
	Dec  decoder
}

func dec[T any]() decoder {
	return func(in []byte) (bool, int, map[string][]byte) {
		var x T
		rest, err := asn1.Unmarshal(in, &x)
		if err != nil {
			return false, 0, nil
		}
		return true, len(in) - len(rest), map[string][]byte{"value": project(x)}
	}
}

var t0 = time.Date(2024, 2, 29, 12, 34, 56, 0, time.UTC)

var structTargets = []structTarget{
	{"pkix.AlgorithmIdentifier", func() any {
		return pkix.AlgorithmIdentifier{Algorithm: asn1.ObjectIdentifier{1, 2, 840, 113549, 1, 1, 11}, Parameters: asn1.NullRawValue}
	}, dec[pkix.AlgorithmIdentifier]()},
	{"pkix.Extension", func() any {
		return pkix.Extension{Id: asn1.ObjectIdentifier{2, 5, 29, 19}, Critical: true, Value: []byte{0x30, 0x03, 0x01, 0x01, 0xff}}
	}, dec[pkix.Extension]()},
	{"pkix.RDNSequence", func() any {
		return pkix.Name{CommonName: "example.com ", Country: []string{"US", "DE"}, Organization: []string{" Ex & Co"},
			EmailAddress: []string{"a@example.com"}, SerialNumber: "0042"}.ToRDNSequence()
	}, dec[pkix.RDNSequence]()},
	{"validity", func() any { return validity{t0, t0.AddDate(40, 0, 0)} }, dec[validity]()},
	// UTCTime two-digit years on both sides of the 1950-2049 window and of Go's own 1969-2068 pivot
	{"validity-1950-1968", func() any {
		return validity{time.Date(1950, 1, 1, 0, 0, 0, 0, time.UTC), time.Date(1968, 12, 31, 23, 59, 59, 0, time.UTC)}
	}, dec[validity]()},
	{"validity-1969-2049", func() any {
		return validity{time.Date(1969, 1, 1, 0, 0, 0, 0, time.UTC), time.Date(2049, 12, 31, 23, 59, 59, 0, time.UTC)}
	}, dec[validity]()},
	{"validity-1951-2050", func() any {
		return validity{time.Date(1951, 6, 15, 12, 0, 1, 0, time.FixedZone("", 3600)), time.Date(2050, 1, 1, 0, 0, 0, 0, time.UTC)}
	}, dec[validity]()},
	{"pkix.TBSCertificateList-1955", func() any {
		return pkix.TBSCertificateList{Version: 1, Signature: pkix.AlgorithmIdentifier{Algorithm: asn1.ObjectIdentifier{1, 3, 101, 112}},
			Issuer: pkix.Name{CommonName: "CA"}.ToRDNSequence(), ThisUpdate: time.Date(1955, 5, 5, 5, 5, 5, 0, time.UTC),
			NextUpdate:          time.Date(1968, 2, 29, 0, 0, 0, 0, time.UTC),
			RevokedCertificates: []pkix.RevokedCertificate{{SerialNumber: big.NewInt(7), RevocationTime: time.Date(1950, 1, 1, 0, 0, 0, 0, time.UTC)}}}
	}, dec[pkix.TBSCertificateList]()},
	{"mixed", func() any {
		return mixed{Version: 2, Serial: big.NewInt(-129), Name: "host@example", Flag: true,
			Bits: asn1.BitString{Bytes: []byte{0xa0}, BitLength: 3}, Blob: []byte{1, 2, 3}, When: t0}
	}, dec[mixed]()},
	{"strs", func() any {
		return strs{P: " Printable 1 ", U: " utf8 é\t", N: " 123 456 ", A: []string{" a ", "b*", "c@d"}, I: int64(300)}
	}, dec[strs]()},
	{"nested", func() any {
		return nested{Alg: pkix.AlgorithmIdentifier{Algorithm: asn1.ObjectIdentifier{1, 3, 101, 112}},
			Exts: []pkix.Extension{{Id: asn1.ObjectIdentifier{2, 5, 29, 15}, Value: []byte{3, 2, 5, 160}}},
			Oids: []asn1.ObjectIdentifier{{2, 5, 4, 3}, {1, 2, 3}}, Set: []int{5, 300, -1},
			Tail: asn1.RawValue{Class: 2, Tag: 9, Bytes: []byte("x")}}
	}, dec[nested]()},
	{"pkix.TBSCertificateList", func() any {
		return pkix.TBSCertificateList{Version: 1, Signature: pkix.AlgorithmIdentifier{Algorithm: asn1.ObjectIdentifier{1, 3, 101, 112}},
			Issuer: pkix.Name{CommonName: "CA"}.ToRDNSequence(), ThisUpdate: t0, NextUpdate: t0.AddDate(0, 1, 0),
			RevokedCertificates: []pkix.RevokedCertificate{{SerialNumber: big.NewInt(7), RevocationTime: t0}}}
	}, dec[pkix.TBSCertificateList]()},
}

// ---------------------------------------------------------------- mutation (lib/dertree)

var ops = [][2]string{
	{"LenNonMinimal", "long"}, {"LenNonMinimal", "pad4"}, {"LenPlus", "1"}, {"LenMinus", "1"}, {"LenIndefinite", ""},
	{"Retag", "universal"}, {"Retag", "context"}, {"Retag", "contextprim"}, {"Retag", "application"}, {"Retag", "high"},
	{"EmptyBody", ""}, {"DupNode", ""}, {"DropNode", ""}, {"SwapSiblings", ""},
	{"NegInt", ""}, {"NegInt", "big"}, {"ZeroInt", ""}, {"HugeInt", "9"}, {"HugeInt", "40"},
	{"TimeShape", "generalized"}, {"TimeShape", "utc-nosec"}, {"TimeShape", "year0000"}, {"TimeShape", "feb30"},
	{"TimeShape", "offset"}, {"TimeShape", "fraction"}, {"TimeShape", "empty"},
	{"BitsShape", "unused8"}, {"BitsShape", "unused7"}, {"BitsShape", "empty"},
	{"OidShape", "arc-huge"}, {"OidShape", "lead80"}, {"OidShape", "unterminated"}, {"OidShape", "arc3"},
	{"BoolShape", "01"}, {"BoolShape", "ffff"},
	{"StrShape", "bmp-odd"}, {"StrShape", "utf8-bad"}, {"StrShape", "printable-bad"}, {"StrShape", "t61"}, {"StrShape", "general"},
	{"ByteNoise", "1"}, {"Truncate", "1"},
}

// operators that produce the encodings permissive mode relaxes (and their neighbours)
var relaxOps = [][2]string{
	{"PadInt", ""}, {"LenNonMinimal", "long"}, {"LenNonMinimal", "pad4"},
	{"TimeShape", "utc-nosec"}, {"TimeShape", "offset"}, {"TimeShape", "fraction"}, {"TimeShape", "feb30"}, {"TimeShape", "generalized"},
	{"StrShape", "printable-bad"}, {"StrShape", "utf8-bad"}, {"StrShape", "bmp-odd"}, {"StrShape", "t61"},
	{"BoolShape", "01"}, {"BitsShape", "unused7"}, {"OidShape", "lead80"}, {"NegInt", ""}, {"ZeroInt", ""},
}

func applicable(op [2]string, n *d.Node) bool {
	u := n.Class == 0
	switch op[0] {
	case "PadInt", "NegInt", "ZeroInt", "HugeInt":
		return u && n.Tag == 2 && !n.Constructed
	case "TimeShape":
		return u && (n.Tag == 23 || n.Tag == 24)
	case "BitsShape":
		return u && n.Tag == 3
	case "OidShape":
		return u && n.Tag == 6
	case "BoolShape":
		return u && n.Tag == 1
	case "StrShape":
		return u && (n.Tag == 12 || n.Tag == 19 || n.Tag == 22 || n.Tag == 18 || n.Tag == 20 || n.Tag == 30)
	}
	return true
}

// non-minimal INTEGER contents: the relaxation permissive mode documents for integers
func padInt(n *d.Node) bool {
	if n.Class != 0 || n.Tag != 2 || n.Constructed || len(n.Content) == 0 {
		return false
	}
	pad := byte(0)
	if n.Content[0]&0x80 != 0 {
		pad = 0xff
	}
	n.Content = append([]byte{pad}, n.Content...)
	return true
}

func walk(n *d.Node, unwrap bool, acc *[]*d.Node) {
	*acc = append(*acc, n)
	if unwrap && !n.Constructed && n.Class == 0 && (n.Tag == 4 || n.Tag == 3) && len(n.Content) > 2 {
		n.Unwrap()
	}
	for _, c := range n.Children {
		walk(c, unwrap, acc)
	}
}

// mutate applies k seeded mutations to a copy of seed; "" ops = unmutated.
func mutate(seed []byte, k int, rng *rand.Rand) ([]byte, string) {
	root, err := d.Parse(seed)
	if err != nil {
		return seed, "unparsed"
	}
	art := &d.DerArtifact{Root: root}
	desc := ""
	for i := 0; i < k; i++ {
		var nodes []*d.Node
		walk(art.Root, rng.Intn(2) == 0, &nodes)
		for try := 0; try < 20; try++ {
			n := nodes[rng.Intn(len(nodes))]
			if rng.Intn(8) == 0 {
				if padInt(n) {
					desc += "PadInt;"
					break
				}
				continue
			}
			op := ops[rng.Intn(len(ops))]
			// type-directed operators only on nodes of that type (keeps mutants near acceptance)
			switch op[0] {
			case "NegInt", "ZeroInt", "HugeInt":
				if n.Tag != 2 || n.Class != 0 {
					continue
				}
			case "TimeShape":
				if n.Class != 0 || (n.Tag != 23 && n.Tag != 24) {
					continue
				}
			case "BitsShape":
				if n.Class != 0 || n.Tag != 3 {
					continue
				}
			case "OidShape":
				if n.Class != 0 || n.Tag != 6 {
					continue
				}
			case "BoolShape":
				if n.Class != 0 || n.Tag != 1 {
					continue
				}
			case "StrShape":
				if n.Class != 0 || (n.Tag != 12 && n.Tag != 19 && n.Tag != 22 && n.Tag != 18 && n.Tag != 20 && n.Tag != 30) {
					continue
				}
			}
			if art.ApplyDer(n, op[0], op[1], rng) == nil {
				desc += op[0] + ":" + op[1] + ";"
				break
			}
		}
	}
	out, _ := art.Bytes(rng)
	return out, desc
}

// ---------------------------------------------------------------- corpus C: certificates

// certDecoder projects a parsed certificate to named parts: the raw fields and every member
// of its JSON encoding (members of "extensions", "signature", "subject_key_info" separately).
func certDecoder(in []byte) (bool, int, map[string][]byte) {
	c, err := x509.ParseCertificate(in)
	if err != nil {
		return false, 0, nil
	}
	m := map[string][]byte{"raw": c.Raw, "raw.tbs": c.RawTBSCertificate, "raw.subject": c.RawSubject, "raw.issuer": c.RawIssuer,
		"raw.spki": c.RawSubjectPublicKeyInfo, "raw.signature": c.Signature,
		"go.subject": []byte(c.Subject.String()), "go.issuer": []byte(c.Issuer.String()),
		"go.extensions": project(c.Extensions), "go.unhandled_critical": project(c.UnhandledCriticalExtensions),
		"go.version": project(c.Version), "go.serial": project(c.SerialNumber)}
	var top map[string]json.RawMessage
	j, err := json.Marshal(c)
	if err != nil || json.Unmarshal(j, &top) != nil {
		m["json"] = []byte(fmt.Sprintf("json error: %v", err))
		return true, len(c.Raw), m
	}
	for k, v := range top {
		switch k {
		case "extensions", "signature", "subject_key_info", "unknown_extensions":
			var sub map[string]json.RawMessage
			if json.Unmarshal(v, &sub) == nil {
				for k2, v2 := range sub {
					m[k+"."+k2] = v2
				}
				continue
			}
		}
		m[k] = v
	}
	return true, len(c.Raw), m
}

func certSeeds() []*inputs.Seed {
	repo := os.Getenv("VERIF_REPO")
	if repo == "" {
		repo = "/repo"
	}
	s := inputs.BuildSeeds(repo, "c20")
	seeds := s.ByKind["cert"]
	if len(seeds) == 0 {
		obs.Fatal("no certificate seeds")
	}
	// validity periods whose UTCTime years need the 1950-2049 window (and a GeneralizedTime end)
	at := func(y, mo, d, h, mi, sec int) int {
		return int(time.Date(y, time.Month(mo), d, h, mi, sec, 0, time.UTC).Sub(pki.T0) / time.Second)
	}
	for _, w := range []struct {
		name   string
		nb, na int
	}{
		{"validity-1950-1968", at(1950, 1, 1, 0, 0, 0), at(1968, 12, 31, 23, 59, 59)},
		{"validity-1955-2049", at(1955, 5, 5, 5, 5, 5), at(2049, 12, 31, 23, 59, 59)},
		{"validity-1968-2050", at(1968, 2, 29, 12, 0, 0), at(2050, 1, 1, 0, 0, 0)},
	} {
		c := pki.Cert{ID: "c20" + w.name, Subj: "C20" + w.name, Key: "K7", Iss: "C20" + w.name, SKey: "K7", CA: true, BC: true,
			PathLen: -1, NB: w.nb, NA: w.na, SKID: "K7"}
		seeds = append(seeds, &inputs.Seed{Name: w.name, Kind: "cert", Class: "gen", Data: pki.MustBuild(c)})
	}
	return seeds
}

func main() {
	if len(os.Args) < 3 {
		obs.Fatal("usage")
	}
	der.SetPermissive(false)
	switch os.Args[1] {
	case "der-cases":
		stride, _ := strconv.Atoi(os.Args[4])
		w := open(os.Args[3])
		i := 0
		err := obs.ReadLines(os.Args[2], func(line []byte) error {
			i++
			if stride > 1 && i%stride != 0 {
				return nil
			}
			var c Case
			if err := json.Unmarshal(line, &c); err != nil {
				return err
			}
			ts := derTargets(c.K)
			for j := range ts {
				t := &ts[j]
				in := der.Input(t, der.Bytes(c.B), c.Fill)
				s, p := both(targetDecoder(t), in)
				write(w, "der", fmt.Sprintf("%s/%d", c.K, i), t.Name, in, s, p)
			}
			return nil
		})
		if err != nil {
			obs.Fatal("%v", err)
		}
		closeAll(w)
		obs.Stat("observations", w.N)
	case "structs":
		n, _ := strconv.Atoi(os.Args[3])
		w := open(os.Args[2])
		rng := rand.New(rand.NewSource(obs.Seed()))
		for _, t := range structTargets {
			seed, err := asn1.Marshal(t.Seed())
			if err != nil {
				obs.Fatal("seed of %s: %v", t.Name, err)
			}
			s, p := both(t.Dec, seed)
			if !s.Ok || !p.Ok {
				obs.Fatal("seed of %s is not accepted (strict %v, permissive %v)", t.Name, s.Ok, p.Ok)
			}
			write(w, "struct", t.Name+"/seed", t.Name, seed, s, p)
			for i := 0; i < n; i++ {
				in, desc := mutate(seed, 1+rng.Intn(2), rng)
				s, p := both(t.Dec, in)
				write(w, "struct", fmt.Sprintf("%s/%d/%s", t.Name, i, desc), t.Name, in, s, p)
			}
		}
		closeAll(w)
		obs.Stat("observations", w.N)
	case "certs":
		n, _ := strconv.Atoi(os.Args[3])
		w := open(os.Args[2])
		rng := rand.New(rand.NewSource(obs.Seed()))
		seeds := certSeeds()
		for _, sd := range seeds {
			s, p := both(certDecoder, sd.Data)
			write(w, "cert", sd.Name+"/seed", "x509.ParseCertificate", sd.Data, s, p)
		}
		for i := 0; i < n; i++ {
			sd := seeds[rng.Intn(len(seeds))]
			in, desc := mutate(sd.Data, 1+rng.Intn(3), rng)
			s, p := both(certDecoder, in)
			write(w, "cert", fmt.Sprintf("%s/%d/%s", sd.Name, i, desc), "x509.ParseCertificate", in, s, p)
		}
		closeAll(w)
		obs.Stat("observations", w.N)
		obs.Stat("seeds", len(seeds))
	case "sweep", "sweep-structs":
		// systematic single mutations: every node of every seed x every relaxation-type operator
		maxSeeds, _ := strconv.Atoi(os.Args[3])
		w := open(os.Args[2])
		rng := rand.New(rand.NewSource(obs.Seed()))
		type seedT struct {
			name, target string
			data         []byte
			dec          decoder
		}
		var seeds []seedT
		if os.Args[1] == "sweep" {
			cs := certSeeds()
			// a seeded selection when limited (all seeds in the thorough tier)
			rng.Shuffle(len(cs), func(i, j int) { cs[i], cs[j] = cs[j], cs[i] })
			for _, sd := range cs {
				if sd.NoMutate {
					continue
				}
				seeds = append(seeds, seedT{sd.Name, "x509.ParseCertificate", sd.Data, certDecoder})
			}
		} else {
			for _, t := range structTargets {
				b, err := asn1.Marshal(t.Seed())
				if err != nil {
					obs.Fatal("seed of %s: %v", t.Name, err)
				}
				seeds = append(seeds, seedT{t.Name, t.Name, b, t.Dec})
			}
		}
		if maxSeeds > 0 && len(seeds) > maxSeeds {
			seeds = seeds[:maxSeeds]
		}
		src := map[string]string{"sweep": "cert", "sweep-structs": "struct"}[os.Args[1]]
		for _, sd := range seeds {
			root, err := d.Parse(sd.data)
			if err != nil {
				continue
			}
			var nodes []*d.Node
			walk(root, true, &nodes)
			for ni := range nodes {
				for _, op := range relaxOps {
					// fresh tree per mutation
					r2, _ := d.Parse(sd.data)
					var n2 []*d.Node
					walk(r2, true, &n2)
					if ni >= len(n2) {
						continue
					}
					n := n2[ni]
					if !applicable(op, n) {
						continue
					}
					art := &d.DerArtifact{Root: r2}
					if op[0] == "PadInt" {
						if !padInt(n) {
							continue
						}
					} else if art.ApplyDer(n, op[0], op[1], rng) != nil {
						continue
					}
					in, _ := art.Bytes(rng)
					s, p := both(sd.dec, in)
					write(w, src, fmt.Sprintf("%s/node%d/%s:%s", sd.name, ni, op[0], op[1]), sd.target, in, s, p)
				}
			}
		}
		closeAll(w)
		obs.Stat("observations", w.N)
		obs.Stat("seeds", len(seeds))
	case "one":
		var r struct {
			Src    string `json:"src"`
			ID     string `json:"id"`
			Target string `json:"target"`
			In     string `json:"in"`
		}
		obs.ReadReplay(os.Args[2], &r)
		in, err := base64.StdEncoding.DecodeString(r.In)
		if err != nil {
			obs.Fatal("%v", err)
		}
		var dcd decoder
		switch r.Src {
		case "der":
			t := der.TargetByName(r.Target)
			if t == nil {
				obs.Fatal("unknown target %q", r.Target)
			}
			dcd = targetDecoder(t)
		case "struct":
			for _, t := range structTargets {
				if t.Name == r.Target {
					dcd = t.Dec
				}
			}
		case "cert":
			dcd = certDecoder
		}
		if dcd == nil {
			obs.Fatal("unknown source %q / target %q", r.Src, r.Target)
		}
		w := obs.NewWriter(os.Args[3])
		s, p := both(dcd, in)
		write(w, r.Src, r.ID, r.Target, in, s, p)
		w.Close()
	default:
		obs.Fatal("unknown command")
	}
}
