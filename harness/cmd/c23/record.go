package main

// Seeded random runs recorded from both implementations for TLC (Trace_RSAIdeal.tla).

import (
	"crypto/sha256"
	"encoding/hex"
	"math/rand"

	"verifharness/lib/obs"
)

type event struct {
	Ev     string `json:"ev"`
	Bits   int    `json:"bits"`
	Op     string `json:"op"`
	Impl   string `json:"impl"`
	Hash   string `json:"hash"`
	Dlen   int    `json:"dlen"`
	Mlen   int    `json:"mlen"`
	Label  string `json:"label"`
	Smode  string `json:"smode"`
	Sn     int    `json:"sn"`
	Mut    string `json:"mut"`
	Key    string `json:"key"`
	Digest string `json:"digest"`
	Keylen int    `json:"keylen"`
	Out    string `json:"out"`
	Pay    string `json:"pay"`
	Msg    string `json:"msg,omitempty"`
}

type randomRun struct {
	Kc     keyClass `json:"kc"`
	Events []event  `json:"events"` // parameters only (outcomes are re-observed)
}

var hlen = map[string]int{"md5": 16, "sha1": 20, "sha224": 28, "sha256": 32, "sha384": 48, "sha512": 64, "md5sha1": 36, "raw": 0}
var realHashes = []string{"md5", "sha1", "sha224", "sha256", "sha384", "sha512"}
var sigHashes = []string{"md5", "sha1", "sha224", "sha256", "sha384", "sha512", "md5sha1", "raw"}

func payDigest(b []byte) string {
	if b == nil {
		return ""
	}
	d := sha256.Sum256(b)
	return hex.EncodeToString(d[:8])
}

func otherOf(r *rand.Rand, list []string, not string) string {
	for {
		h := list[r.Intn(len(list))]
		if h != not {
			return h
		}
	}
}

func clamp0(n int) int {
	if n < 0 {
		return 0
	}
	return n
}

// randomParams draws the parameter events of one run (no outcomes).
func randomParams(r *rand.Rand, kc keyClass, sOK bool) []event {
	impl := func() string {
		if sOK && r.Intn(2) == 0 {
			return "S"
		}
		return "Z"
	}
	k := (kc.Bits + 7) / 8
	evs := []event{{Ev: "reset", Bits: kc.Bits}}
	p := event{Ev: "produce", Impl: impl(), Key: "same", Digest: "same"}
	switch r.Intn(4) {
	case 0:
		p.Op = "EncPKCS1"
		p.Mlen = clamp0(r.Intn(k-11+3) + r.Intn(2)*0)
		if r.Intn(4) == 0 {
			p.Mlen = clamp0(k - 11 - 1 + r.Intn(3))
		}
	case 1:
		p.Op = "EncOAEP"
		p.Hash = realHashes[r.Intn(len(realHashes))]
		max := k - 2*hlen[p.Hash] - 2
		p.Mlen = clamp0(r.Intn(clamp0(max) + 3))
		if r.Intn(4) == 0 {
			p.Mlen = clamp0(max - 1 + r.Intn(3))
		}
		p.Label = []string{"", "a", "label-2"}[r.Intn(3)]
	case 2:
		p.Op = "SignPKCS1"
		p.Hash = sigHashes[r.Intn(len(sigHashes))]
		p.Dlen = hlen[p.Hash]
		if p.Hash == "raw" {
			p.Dlen = 1 + r.Intn(70)
		} else if r.Intn(8) == 0 {
			p.Dlen += 1 + r.Intn(3)
		}
	case 3:
		p.Op = "SignPSS"
		p.Hash = realHashes[r.Intn(len(realHashes))]
		p.Dlen = hlen[p.Hash]
		p.Smode = []string{"auto", "eqhash", "n", "n"}[r.Intn(4)]
		if p.Smode == "n" {
			max := k - 2 - hlen[p.Hash]
			p.Sn = 1 + r.Intn(clamp0(max)+3)
			if r.Intn(8) == 0 {
				p.Sn = -7
			}
		}
	}
	evs = append(evs, p)
	if r.Intn(3) == 0 {
		evs = append(evs, event{Ev: "mutate", Mut: []string{"flip", "trunc", "ext0"}[r.Intn(3)]})
	}
	nc := 1 + r.Intn(3)
	for i := 0; i < nc; i++ {
		c := event{Ev: "consume", Impl: "Z", Key: "same", Digest: "same", Hash: p.Hash, Dlen: p.Dlen, Label: p.Label}
		if r.Intn(6) == 0 {
			c.Key = "other"
		}
		enc := p.Op == "EncPKCS1" || p.Op == "EncOAEP"
		cross := r.Intn(8) == 0
		switch {
		case enc && ((p.Op == "EncPKCS1") != cross):
			if r.Intn(2) == 0 {
				c.Op = "DecPKCS1"
			} else {
				c.Op = "DecSessionKey"
				c.Key = "same"
				c.Keylen = p.Mlen
				if r.Intn(3) == 0 || c.Keylen == 0 {
					c.Keylen = 1 + r.Intn(k)
				}
			}
		case enc:
			c.Op = "DecOAEP"
			c.Key = "same"
			if c.Hash == "" {
				c.Hash = realHashes[r.Intn(len(realHashes))]
			}
			if r.Intn(4) == 0 {
				c.Hash = otherOf(r, realHashes, c.Hash)
			}
			if r.Intn(4) == 0 {
				c.Label = c.Label + "x"
			}
		case (p.Op == "SignPKCS1") != cross:
			c.Op = "VerPKCS1"
			if c.Hash == "" || c.Hash == "raw" && p.Op != "SignPKCS1" {
				c.Hash = "sha256"
			}
			if r.Intn(4) == 0 {
				c.Hash = otherOf(r, sigHashes[:7], c.Hash)
			}
			if c.Hash != "raw" {
				c.Dlen = hlen[c.Hash]
			} else if c.Dlen == 0 {
				c.Dlen = 20
			}
			if r.Intn(4) == 0 {
				c.Digest = "other"
			}
		default:
			c.Op = "VerPSS"
			if _, ok := hlen[c.Hash]; !ok || c.Hash == "raw" || c.Hash == "md5sha1" || c.Hash == "" {
				c.Hash = "sha256"
			}
			if r.Intn(4) == 0 {
				c.Hash = otherOf(r, realHashes, c.Hash)
			}
			c.Dlen = hlen[c.Hash]
			if r.Intn(4) == 0 {
				c.Digest = "other"
			}
			c.Smode = []string{"auto", "auto", "eqhash", "n", "n"}[r.Intn(5)]
			if c.Smode == "n" {
				// near the salt length the signer resolved (the spec recomputes it)
				sl := 0
				switch p.Smode {
				case "auto":
					sl = k - 2 - hlen[p.Hash]
				case "eqhash":
					sl = hlen[p.Hash]
				case "n":
					sl = p.Sn
				}
				c.Sn = sl + r.Intn(3) - 1
				if c.Sn == 0 || c.Sn == -1 {
					c.Sn = sl + 2
				}
				if c.Sn <= 0 {
					c.Sn = 3
				}
			}
		}
		evs = append(evs, c)
		if sOK { // the same consumer on the other implementation: agreement
			t := c
			t.Impl = "S"
			evs = append(evs, t)
		}
	}
	return evs
}

// observe executes the parameter events and fills in outcomes.  A failed producer ends the run.
func observe(evs []event, kp, other *keyPair, seed int64) []event {
	x := &executor{kp: kp, other: other, r: rand.New(rand.NewSource(seed))}
	var out []event
	for _, e := range evs {
		switch e.Ev {
		case "reset":
			out = append(out, e)
		case "mutate":
			x.object = mutate(x.object, e.Mut)
			out = append(out, e)
		case "produce", "consume":
			s := step{Op: e.Op, Impl: e.Impl, Hash: e.Hash, Dlen: e.Dlen, Mlen: e.Mlen, Label: e.Label, Smode: e.Smode, Sn: e.Sn,
				Key: e.Key, Digest: e.Digest, Keylen: e.Keylen}
			res := x.exec(s)
			e.Out, e.Msg = res.Outcome, res.Msg
			if e.Ev == "produce" {
				if res.Outcome == "ok" {
					x.object = res.Payload
				}
			} else {
				e.Pay = payDigest(res.Payload)
			}
			out = append(out, e)
			if e.Ev == "produce" && res.Outcome != "ok" {
				return out
			}
		}
	}
	return out
}

type recordedRun struct {
	Random randomRun   `json:"random"`
	Key    keyMaterial `json:"key"`
	Other  keyMaterial `json:"other"`
	Seed   int64       `json:"seed"`
}

func cmdRecord(keys, out string, n int) {
	pool := loadPool(keys)
	cache := newKeyCache(pool)
	var classes []keyClass
	for _, s := range pool.Sets {
		if s.Other {
			continue
		}
		for _, pre := range []string{"pre", "nopre"} {
			for _, e := range []string{"e3", "e65537", "r31", "r40", "rbig"} {
				classes = append(classes, keyClass{Bits: s.Bits, Primes: s.N, Pre: pre, Exp: e})
			}
		}
	}
	r := rand.New(rand.NewSource(obs.Seed()*977 + 5))
	w := obs.NewWriter(out)
	meta := obs.NewWriter(out + ".runs")
	for i := 0; i < n; i++ {
		kc := classes[r.Intn(len(classes))]
		// weight towards the small sizes: the large ones are slow and are covered by the generated runs
		for kc.Bits > 2048 && r.Intn(4) != 0 {
			kc = classes[r.Intn(len(classes))]
		}
		kp := cache.get(kc)
		other := cache.other(kc.Bits)
		params := randomParams(r, kc, kp.s != nil)
		seed := obs.Seed()*13 + int64(i)
		for _, e := range observe(params, kp, other, seed) {
			w.Write(e)
		}
		meta.Write(recordedRun{Random: randomRun{Kc: kc, Events: params}, Key: kp.mat, Other: other.mat, Seed: seed})
	}
	w.Close()
	meta.Close()
	obs.Stat("random_runs", n)
}

func cmdRecordOne(replay, out string) {
	var rc recordedRun
	obs.ReadReplay(replay, &rc)
	kp := keyFromMaterial(rc.Random.Kc, rc.Key)
	other := keyFromMaterial(keyClass{Bits: rc.Random.Kc.Bits, Primes: 2, Pre: "pre", Exp: "e65537"}, rc.Other)
	w := obs.NewWriter(out)
	for _, e := range observe(rc.Random.Events, kp, other, rc.Seed+1) {
		w.Write(e)
	}
	w.Close()
}
