// c23: conformance harness binding RSAIdeal.tla to /repo/rsa (Z) and crypto/rsa (S).
//
// The harness interprets the symbols of the ideal functionality with real keys: it executes
// the abstract runs TLC generated on both implementations and compares each observed outcome
// with the set TLC computed; and it records seeded random runs for TLC to judge
// (Trace_RSAIdeal.tla).  It never decides what a correct outcome is.
//
//	c23 keys   <keys.json> <sizes,comma> <primes,comma>     generate the prime pool (cached by the driver)
//	c23 run    <keys.json> <runs.ndjson> <shard> <nshards>  execute TLC-generated runs
//	c23 replay <replay.json>                                one run with its key (exit 1 if reproduced)
//	c23 record <keys.json> <out.ndjson> <n>                 seeded random runs -> observations for TLC
//	c23 record-one <replay.json> <out.ndjson>               re-record one random run
//
// crypto/rsa refuses keys below 1024 bits unless rsa1024min=0; the 512-bit class needs it.

//go:debug rsa1024min=0
package main

import (
	"bytes"
	"crypto"
	_ "crypto/md5"
	crand "crypto/rand"
	stdrsa "crypto/rsa"
	_ "crypto/sha1"
	_ "crypto/sha256"
	_ "crypto/sha512"
	"encoding/hex"
	"encoding/json"
	"fmt"
	"math/big"
	"math/rand"
	"os"
	"strconv"
	"strings"
	"time"

	zrsa "github.com/zmap/zcrypto/rsa"
	"verifharness/lib/obs"
)

const opLimit = 120 * time.Second // >= 1000x the slowest private-key operation (4096 bit, no CRT: ~60 ms)

// ---------------------------------------------------------------------------------
// key pool

type primeSet struct {
	Bits   int      `json:"bits"`
	N      int      `json:"n"`
	Primes []string `json:"primes"` // hex
	Other  bool     `json:"other"`  // the unrelated key of the same size used for wrong-key steps
}

type keyPool struct {
	Seed int64      `json:"seed"`
	Sets []primeSet `json:"sets"`
}

var one = big.NewInt(1)

// goodPrime: p-1 coprime to 3 and 65537 so that every exponent class is usable with one prime set.
func goodPrime(r *rand.Rand, bits int) *big.Int {
	for {
		p, err := crand.Prime(r, bits)
		if err != nil {
			obs.Fatal("prime: %v", err)
		}
		pm := new(big.Int).Sub(p, one)
		if new(big.Int).Mod(pm, big.NewInt(3)).Sign() == 0 || new(big.Int).Mod(pm, big.NewInt(65537)).Sign() == 0 {
			continue
		}
		return p
	}
}

// genPrimes: n distinct primes whose product has exactly `bits` bits.
func genPrimes(r *rand.Rand, bits, n int) []*big.Int {
	for {
		ps := make([]*big.Int, n)
		todo := bits
		prod := big.NewInt(1)
		for i := 0; i < n; i++ {
			b := todo / (n - i)
			ps[i] = goodPrime(r, b)
			todo -= b
			prod.Mul(prod, ps[i])
		}
		// exact length, and the second-highest bit set: N >= 0.75 * 2^bits, so that a forged
		// encoding with bit (bits-1) set is below N for about half of the salts / seeds
		if prod.BitLen() != bits || prod.Bit(bits-2) != 1 {
			continue
		}
		distinct := true
		for i := range ps {
			for j := 0; j < i; j++ {
				if ps[i].Cmp(ps[j]) == 0 {
					distinct = false
				}
			}
		}
		if distinct {
			return ps
		}
	}
}

func cmdKeys(out string, sizes, primes []int) {
	r := rand.New(rand.NewSource(obs.Seed()*7 + 11))
	pool := keyPool{Seed: obs.Seed()}
	for _, b := range sizes {
		for _, n := range primes {
			ps := genPrimes(r, b, n)
			s := primeSet{Bits: b, N: n}
			for _, p := range ps {
				s.Primes = append(s.Primes, p.Text(16))
			}
			pool.Sets = append(pool.Sets, s)
		}
		ps := genPrimes(r, b, 2)
		pool.Sets = append(pool.Sets, primeSet{Bits: b, N: 2, Other: true, Primes: []string{ps[0].Text(16), ps[1].Text(16)}})
	}
	b, _ := json.Marshal(pool)
	if err := os.WriteFile(out, b, 0o644); err != nil {
		obs.Fatal("%v", err)
	}
	obs.Stat("prime_sets", len(pool.Sets))
}

func loadPool(path string) *keyPool {
	b, err := os.ReadFile(path)
	if err != nil {
		obs.Fatal("%v", err)
	}
	var p keyPool
	if err := json.Unmarshal(b, &p); err != nil {
		obs.Fatal("%v", err)
	}
	return &p
}

func (p *keyPool) primes(bits, n int, other bool) []*big.Int {
	for _, s := range p.Sets {
		if s.Bits == bits && s.N == n && s.Other == other {
			var out []*big.Int
			for _, h := range s.Primes {
				x, ok := new(big.Int).SetString(h, 16)
				if !ok || !x.ProbablyPrime(8) {
					obs.Fatal("key pool: bad prime")
				}
				out = append(out, x)
			}
			return out
		}
	}
	obs.Fatal("key pool has no %d-bit %d-prime set (other=%v)", bits, n, other)
	return nil
}

// ---------------------------------------------------------------------------------
// key classes -> real keys of both implementations

type keyClass struct {
	Bits   int    `json:"bits"`
	Primes int    `json:"primes"`
	Pre    string `json:"pre"`
	Exp    string `json:"exp"`
}

type keyMaterial struct {
	Primes []string `json:"primes"`
	E      string   `json:"e"`
	D      string   `json:"d"`
}

type keyPair struct {
	class keyClass
	mat   keyMaterial
	z     *zrsa.PrivateKey
	s     *stdrsa.PrivateKey // nil when the exponent is beyond crypto/rsa's documented limit
}

func pickExponent(r *rand.Rand, class string, primes []*big.Int, bits int) *big.Int {
	coprime := func(e *big.Int) bool {
		for _, p := range primes {
			pm := new(big.Int).Sub(p, one)
			if new(big.Int).GCD(nil, nil, e, pm).Cmp(one) != 0 {
				return false
			}
		}
		return true
	}
	var ebits int
	switch class {
	case "e3":
		return big.NewInt(3)
	case "e65537":
		return big.NewInt(65537)
	case "r31":
		ebits = 31
	case "r40":
		ebits = 40
	case "rbig":
		ebits = bits - 2
	default:
		obs.Fatal("unknown exponent class %q", class)
	}
	for {
		e := new(big.Int).Rand(r, new(big.Int).Lsh(one, uint(ebits)))
		e.SetBit(e, 0, 1)
		e.SetBit(e, ebits-1, 1)
		if coprime(e) {
			return e
		}
	}
}

func buildKey(class keyClass, primes []*big.Int, e *big.Int) *keyPair {
	n := big.NewInt(1)
	phi := big.NewInt(1)
	for _, p := range primes {
		n.Mul(n, p)
		phi.Mul(phi, new(big.Int).Sub(p, one))
	}
	d := new(big.Int).ModInverse(e, phi)
	if d == nil {
		obs.Fatal("exponent not invertible")
	}
	kp := &keyPair{class: class}
	kp.mat = keyMaterial{E: e.Text(16), D: d.Text(16)}
	for _, p := range primes {
		kp.mat.Primes = append(kp.mat.Primes, p.Text(16))
	}
	cp := func() []*big.Int {
		out := make([]*big.Int, len(primes))
		for i, p := range primes {
			out[i] = new(big.Int).Set(p)
		}
		return out
	}
	kp.z = &zrsa.PrivateKey{PublicKey: zrsa.PublicKey{N: new(big.Int).Set(n), E: new(big.Int).Set(e)}, D: new(big.Int).Set(d), Primes: cp()}
	if err := kp.z.Validate(); err != nil {
		obs.Fatal("constructed key fails zcrypto Validate: %v", err)
	}
	if class.Pre == "pre" {
		kp.z.Precompute()
	}
	// abstraction check (rule 2): the real key is of the requested class
	gotPre := "nopre"
	if kp.z.Precomputed.Dp != nil {
		gotPre = "pre"
	}
	if kp.z.N.BitLen() != class.Bits || len(kp.z.Primes) != class.Primes || gotPre != class.Pre || expClassOf(kp.z.E, class.Bits) != class.Exp {
		obs.Fatal("constructed key is not of class %+v (bits %d primes %d pre %s exp %s)", class, kp.z.N.BitLen(), len(kp.z.Primes), gotPre, expClassOf(kp.z.E, class.Bits))
	}
	if e.BitLen() <= 31 {
		kp.s = &stdrsa.PrivateKey{PublicKey: stdrsa.PublicKey{N: new(big.Int).Set(n), E: int(e.Int64())}, D: new(big.Int).Set(d), Primes: cp()}
		if class.Pre == "pre" {
			kp.s.Precompute()
		}
		if err := kp.s.Validate(); err != nil {
			obs.Fatal("constructed key fails crypto/rsa Validate: %v", err)
		}
	}
	return kp
}

func expClassOf(e *big.Int, bits int) string {
	switch {
	case e.Cmp(big.NewInt(3)) == 0:
		return "e3"
	case e.Cmp(big.NewInt(65537)) == 0:
		return "e65537"
	case e.BitLen() == 31:
		return "r31"
	case e.BitLen() == 40:
		return "r40"
	case e.BitLen() == bits-2:
		return "rbig"
	}
	return "other"
}

type keyCache struct {
	pool *keyPool
	m    map[keyClass]*keyPair
	oth  map[int]*keyPair
}

func newKeyCache(pool *keyPool) *keyCache {
	return &keyCache{pool: pool, m: map[keyClass]*keyPair{}, oth: map[int]*keyPair{}}
}

func (c *keyCache) get(class keyClass) *keyPair {
	if k, ok := c.m[class]; ok {
		return k
	}
	primes := c.pool.primes(class.Bits, class.Primes, false)
	r := rand.New(rand.NewSource(c.pool.Seed*31 + int64(class.Bits)*7 + int64(class.Primes)*3 + int64(len(class.Exp))))
	e := pickExponent(r, class.Exp, primes, class.Bits)
	k := buildKey(class, primes, e)
	c.m[class] = k
	return k
}

// other: an unrelated two-prime e=65537 key of the same size (wrong-key steps)
func (c *keyCache) other(bits int) *keyPair {
	if k, ok := c.oth[bits]; ok {
		return k
	}
	primes := c.pool.primes(bits, 2, true)
	k := buildKey(keyClass{Bits: bits, Primes: 2, Pre: "pre", Exp: "e65537"}, primes, big.NewInt(65537))
	c.oth[bits] = k
	return k
}

func keyFromMaterial(class keyClass, m keyMaterial) *keyPair {
	var primes []*big.Int
	for _, h := range m.Primes {
		p, ok := new(big.Int).SetString(h, 16)
		if !ok {
			obs.Fatal("bad prime in replay")
		}
		primes = append(primes, p)
	}
	e, ok := new(big.Int).SetString(m.E, 16)
	if !ok {
		obs.Fatal("bad exponent in replay")
	}
	return buildKey(class, primes, e)
}

// ---------------------------------------------------------------------------------
// steps

type step struct {
	Op     string   `json:"op"`
	Impl   string   `json:"impl"`
	Hash   string   `json:"hash"`
	Dlen   int      `json:"dlen"`
	Mlen   int      `json:"mlen"`
	Label  string   `json:"label"`
	Smode  string   `json:"smode"`
	Sn     int      `json:"sn"`
	Mut    string   `json:"mut"`
	Key    string   `json:"key"`
	Digest string   `json:"digest"`
	Keylen int      `json:"keylen"`
	Bad    string   `json:"bad"`
	Forge  string   `json:"forge"`
	Exp    []string `json:"exp"`
	Agree  bool     `json:"agree"`
}

type run struct {
	Kc    keyClass `json:"kc"`
	Steps []step   `json:"steps"`
}

var hashes = map[string]crypto.Hash{"md5": crypto.MD5, "sha1": crypto.SHA1, "sha224": crypto.SHA224, "sha256": crypto.SHA256,
	"sha384": crypto.SHA384, "sha512": crypto.SHA512, "md5sha1": crypto.MD5SHA1, "raw": crypto.Hash(0)}

func hashOf(name string) crypto.Hash {
	h, ok := hashes[name]
	if !ok {
		obs.Fatal("unknown hash %q", name)
	}
	return h
}

func saltOpt(mode string, n int) int {
	switch mode {
	case "auto":
		return 0 // PSSSaltLengthAuto
	case "eqhash":
		return -1 // PSSSaltLengthEqualsHash
	}
	return n
}

// digestBytes: deterministic digest number id of the given length
func digestBytes(id string, n int) []byte {
	b := make([]byte, n)
	seed := byte(0x31)
	if id != "same" {
		seed = 0xC7
	}
	for i := range b {
		b[i] = seed + byte(i*7)
	}
	return b
}

func mutate(b []byte, kind string) []byte {
	out := append([]byte(nil), b...)
	switch kind {
	case "flip":
		out[len(out)/2] ^= 0x08
	case "trunc":
		out = out[:len(out)-1]
	case "ext0":
		out = append([]byte{0}, out...)
	}
	return out
}

// result of one executed step
type result struct {
	Outcome string // abstract outcome
	Payload []byte // plaintext / key bytes (for agreement), produced object
	Msg     string
}

type executor struct {
	kp, other *keyPair
	r         *rand.Rand
	object    []byte // current ciphertext / signature
	msg       []byte // message of the current ciphertext
}

func (x *executor) keyFor(which string) *keyPair {
	if which == "other" {
		return x.other
	}
	return x.kp
}

func guardOp(f func()) (panicked string, timeout bool) {
	o := obs.Guard(opLimit, f)
	return o.Panic, o.Timeout
}

// exec runs one step on the real implementation named in the step.
func (x *executor) exec(s step) result {
	var res result
	var err error
	var out []byte
	kp := x.keyFor(s.Key)
	useS := s.Impl == "S"
	if useS && kp.s == nil {
		obs.Fatal("run asks for S on a key class beyond crypto/rsa's limits: %+v", kp.class)
	}
	h := crypto.Hash(0)
	if s.Hash != "" {
		h = hashOf(s.Hash)
	}
	p, to := guardOp(func() {
		switch s.Op {
		case "EncPKCS1":
			x.msg = make([]byte, s.Mlen)
			x.r.Read(x.msg)
			if useS {
				out, err = stdrsa.EncryptPKCS1v15(x.r, &kp.s.PublicKey, x.msg)
			} else {
				out, err = zrsa.EncryptPKCS1v15(x.r, &kp.z.PublicKey, x.msg)
			}
		case "EncOAEP":
			x.msg = make([]byte, s.Mlen)
			x.r.Read(x.msg)
			if useS {
				out, err = stdrsa.EncryptOAEP(h.New(), x.r, &kp.s.PublicKey, x.msg, []byte(s.Label))
			} else {
				out, err = zrsa.EncryptOAEP(h.New(), x.r, &kp.z.PublicKey, x.msg, []byte(s.Label))
			}
		case "SignPKCS1":
			d := digestBytes("same", s.Dlen)
			if useS {
				out, err = stdrsa.SignPKCS1v15(x.r, kp.s, h, d)
			} else {
				out, err = zrsa.SignPKCS1v15(x.r, kp.z, h, d)
			}
		case "SignPSS":
			d := digestBytes("same", s.Dlen)
			if useS {
				out, err = stdrsa.SignPSS(x.r, kp.s, h, d, &stdrsa.PSSOptions{SaltLength: saltOpt(s.Smode, s.Sn)})
			} else {
				out, err = zrsa.SignPSS(x.r, kp.z, h, d, &zrsa.PSSOptions{SaltLength: saltOpt(s.Smode, s.Sn)})
			}
		case "ForgeEnc":
			x.msg = make([]byte, s.Mlen)
			x.r.Read(x.msg)
			out = forgeEnc(kp, s.Forge, x.msg, x.r)
		case "ForgeSig":
			out, err = forgeSig(kp, s.Forge, h, digestBytes("same", s.Dlen), x.r)
		case "ForgePSS":
			out, err = forgePSS(kp, s.Forge, h, digestBytes("same", s.Dlen), s.Smode, s.Sn, x.r)
		case "ForgeOAEP":
			x.msg = make([]byte, s.Mlen)
			x.r.Read(x.msg)
			if len(x.msg) > 0 {
				x.msg[0] = 0xff // neither 00 nor 01: a missing separator cannot be "found" inside M
			}
			out, err = forgeOAEP(kp, s.Forge, h, []byte(s.Label), x.msg, x.r)
		case "DecPKCS1":
			if useS {
				out, err = stdrsa.DecryptPKCS1v15(nil, kp.s, x.object)
			} else {
				out, err = zrsa.DecryptPKCS1v15(nil, kp.z, x.object)
			}
		case "DecOAEP":
			if useS {
				out, err = stdrsa.DecryptOAEP(h.New(), nil, kp.s, x.object, []byte(s.Label))
			} else {
				out, err = zrsa.DecryptOAEP(h.New(), nil, kp.z, x.object, []byte(s.Label))
			}
		case "DecSessionKey":
			out = bytes.Repeat([]byte{0xA5}, s.Keylen)
			if useS {
				err = stdrsa.DecryptPKCS1v15SessionKey(nil, kp.s, x.object, out)
			} else {
				err = zrsa.DecryptPKCS1v15SessionKey(nil, kp.z, x.object, out)
			}
		case "VerPKCS1":
			d := digestBytes(s.Digest, s.Dlen)
			if useS {
				err = stdrsa.VerifyPKCS1v15(&kp.s.PublicKey, h, d, x.object)
			} else {
				err = zrsa.VerifyPKCS1v15(&kp.z.PublicKey, h, d, x.object)
			}
		case "VerPSS":
			d := digestBytes(s.Digest, s.Dlen)
			if useS {
				err = stdrsa.VerifyPSS(&kp.s.PublicKey, h, d, x.object, &stdrsa.PSSOptions{SaltLength: saltOpt(s.Smode, s.Sn)})
			} else {
				err = zrsa.VerifyPSS(&kp.z.PublicKey, h, d, x.object, &zrsa.PSSOptions{SaltLength: saltOpt(s.Smode, s.Sn)})
			}
		default:
			obs.Fatal("unknown op %q", s.Op)
		}
	})
	if p != "" {
		return result{Outcome: "panic", Msg: p}
	}
	if to {
		return result{Outcome: "timeout"}
	}
	if err != nil {
		res.Msg = err.Error()
	}
	switch s.Op {
	case "EncPKCS1", "EncOAEP", "SignPKCS1", "SignPSS", "ForgeEnc", "ForgeSig", "ForgePSS", "ForgeOAEP":
		if err != nil {
			res.Outcome = "error"
		} else {
			res.Outcome = "ok"
			res.Payload = out
		}
	case "DecPKCS1", "DecOAEP":
		switch {
		case err != nil:
			res.Outcome = "reject"
		case bytes.Equal(out, x.msg):
			res.Outcome = "value"
		default:
			res.Outcome = "garbage"
			res.Payload = out
		}
	case "DecSessionKey":
		switch {
		case err != nil:
			res.Outcome = "error"
		case bytes.Equal(out, x.msg):
			res.Outcome = "key"
		case bytes.Equal(out, bytes.Repeat([]byte{0xA5}, s.Keylen)):
			res.Outcome = "unchanged"
		default:
			res.Outcome = "garbage"
			res.Payload = out
		}
	case "VerPKCS1", "VerPSS":
		if err != nil {
			res.Outcome = "reject"
		} else {
			res.Outcome = "accept"
		}
	}
	return res
}

// ---- forged objects: encoded messages put under the RSA permutation with math/big ----

func nonZero(r *rand.Rand, n int) []byte {
	b := make([]byte, n)
	for i := range b {
		b[i] = byte(1 + r.Intn(255))
	}
	return b
}

func rawPublic(kp *keyPair, em []byte) []byte {
	c := new(big.Int).Exp(new(big.Int).SetBytes(em), kp.z.E, kp.z.N)
	return c.FillBytes(make([]byte, (kp.z.N.BitLen()+7)/8))
}

func rawPrivate(kp *keyPair, em []byte) []byte {
	d, _ := new(big.Int).SetString(kp.mat.D, 16)
	c := new(big.Int).Exp(new(big.Int).SetBytes(em), d, kp.z.N)
	return c.FillBytes(make([]byte, (kp.z.N.BitLen()+7)/8))
}

func forgeEnc(kp *keyPair, kind string, msg []byte, r *rand.Rand) []byte {
	k := (kp.z.N.BitLen() + 7) / 8
	var em []byte
	switch kind {
	case "ps7":
		em = append([]byte{0, 2}, nonZero(r, 7)...)
		em = append(em, 0)
		em = append(em, nonZero(r, k-10-len(msg))...) // the "message" fills the rest; its tail is msg
		em = append(em, msg...)
	case "nozero":
		em = append([]byte{0, 2}, nonZero(r, k-2)...)
	case "b0":
		em = append([]byte{1, 2}, nonZero(r, k-3-len(msg))...)
		em = append(em, 0)
		em = append(em, msg...)
	case "bt1":
		em = append([]byte{0, 1}, bytes.Repeat([]byte{0xff}, k-3-len(msg))...)
		em = append(em, 0)
		em = append(em, msg...)
	default:
		obs.Fatal("unknown forged ciphertext kind %q", kind)
	}
	if len(em) != k {
		obs.Fatal("forged EM has length %d, want %d", len(em), k)
	}
	return rawPublic(kp, em)
}

// forgeSig starts from the genuine EMSA-PKCS1-v1_5 encoding (recovered from a standard-library
// signature with the public operation), damages it and applies the private operation.
func forgeSig(kp *keyPair, kind string, h crypto.Hash, digest []byte, r *rand.Rand) ([]byte, error) {
	if kp.s == nil {
		obs.Fatal("forged signatures need the standard library")
	}
	sig, err := stdrsa.SignPKCS1v15(nil, kp.s, h, digest)
	if err != nil {
		return nil, err
	}
	em := new(big.Int).Exp(new(big.Int).SetBytes(sig), kp.z.E, kp.z.N).FillBytes(make([]byte, len(sig)))
	k := len(em)
	if em[0] != 0 || em[1] != 1 {
		obs.Fatal("recovered EM is not an EMSA-PKCS1-v1_5 encoding")
	}
	sep := 2
	for em[sep] == 0xff {
		sep++
	}
	t := em[sep+1:] // DigestInfo || H
	switch kind {
	case "bt2":
		em[1] = 2
	case "noff":
		em[2+(sep-2)/2] = 0xfe
	case "trail":
		ne := append([]byte{0, 1}, bytes.Repeat([]byte{0xff}, 8)...)
		ne = append(ne, 0)
		ne = append(ne, t...)
		ne = append(ne, nonZero(r, k-len(ne))...)
		em = ne
	case "prefix":
		em[sep+1+2] ^= 0x01
	default:
		obs.Fatal("unknown forged signature kind %q", kind)
	}
	if len(em) != k {
		obs.Fatal("forged EM has length %d, want %d", len(em), k)
	}
	forged := rawPrivate(kp, em)
	// abstraction check: the public operation gives back the damaged encoding
	if !bytes.Equal(new(big.Int).Exp(new(big.Int).SetBytes(forged), kp.z.E, kp.z.N).FillBytes(make([]byte, k)), em) {
		obs.Fatal("forged signature does not open to the forged encoding")
	}
	return forged, nil
}

// forgePSS starts from a genuine EMSA-PSS encoding (standard-library signature opened with the
// public operation), damages one structural element and applies the private operation.
func forgePSS(kp *keyPair, kind string, h crypto.Hash, digest []byte, smode string, sn int, r *rand.Rand) ([]byte, error) {
	if kp.s == nil {
		obs.Fatal("forged PSS signatures need the standard library")
	}
	bits := kp.z.N.BitLen()
	k := (bits + 7) / 8
	emLen := (bits - 1 + 7) / 8
	hLen := h.Size()
	sLen := sn
	if smode == "eqhash" {
		sLen = hLen
	}
	psLen := emLen - hLen - sLen - 2
	if psLen < 2 {
		obs.Fatal("forgePSS: padding string too short (%d)", psLen)
	}
	for try := 0; try < 400; try++ {
		sig, err := stdrsa.SignPSS(r, kp.s, h, digest, &stdrsa.PSSOptions{SaltLength: saltOpt(smode, sn)})
		if err != nil {
			return nil, err
		}
		v := new(big.Int).Exp(new(big.Int).SetBytes(sig), kp.z.E, kp.z.N)
		if v.BitLen() > bits-1 {
			obs.Fatal("opened PSS signature is not below 2^(modBits-1)")
		}
		em := v.FillBytes(make([]byte, k))
		off := k - emLen // 1 iff modBits = 1 mod 8
		if em[k-1] != 0xbc {
			obs.Fatal("opened PSS signature has no BC trailer")
		}
		switch kind {
		case "topbit":
			v.SetBit(v, bits-1, 1)
			if v.Cmp(kp.z.N) >= 0 {
				continue // retry with a fresh salt
			}
			em = v.FillBytes(make([]byte, k))
		case "trailer":
			em[k-1] = 0xbd
		case "ps":
			em[off+1] ^= 0x08
		case "sep":
			em[off+psLen] ^= 0x03
		case "hash":
			em[off+emLen-hLen-1] ^= 0x01
		default:
			obs.Fatal("unknown forged PSS kind %q", kind)
		}
		forged := rawPrivate(kp, em)
		// abstraction check: the public operation gives back the damaged encoding
		if !bytes.Equal(rawPublic(kp, forged), em) {
			obs.Fatal("forged PSS signature does not open to the forged encoding")
		}
		return forged, nil
	}
	obs.Fatal("forgePSS: no salt gave an encoding below the modulus")
	return nil, nil
}

func mgf1(h crypto.Hash, seed []byte, n int) []byte {
	var out []byte
	for c := uint32(0); len(out) < n; c++ {
		hh := h.New()
		hh.Write(seed)
		hh.Write([]byte{byte(c >> 24), byte(c >> 16), byte(c >> 8), byte(c)})
		out = hh.Sum(out)
	}
	return out[:n]
}

func xorBytes(a, b []byte) []byte {
	out := make([]byte, len(a))
	for i := range a {
		out[i] = a[i] ^ b[i]
	}
	return out
}

// forgeOAEP builds an EME-OAEP encoding from scratch (RFC 8017 7.1.1 with the standard library's
// hash as MGF1 core), with one structural element damaged, and applies the public operation.
// kind "genuine" is a correct encoding: it must decrypt, which checks this constructor.
func forgeOAEP(kp *keyPair, kind string, h crypto.Hash, label, msg []byte, r *rand.Rand) ([]byte, error) {
	k := (kp.z.N.BitLen() + 7) / 8
	hLen := h.Size()
	psLen := k - len(msg) - 2*hLen - 2
	if psLen < 1 {
		obs.Fatal("forgeOAEP: no room for a padding string")
	}
	hh := h.New()
	hh.Write(label)
	lHash := hh.Sum(nil)
	for try := 0; try < 400; try++ {
		seed := make([]byte, hLen)
		r.Read(seed)
		db := append([]byte{}, lHash...)
		db = append(db, make([]byte, psLen)...)
		db = append(db, 1)
		db = append(db, msg...)
		y := byte(0)
		switch kind {
		case "genuine":
		case "y":
			y = 1
		case "lhash":
			db[0] ^= 0x01
		case "nosep":
			db[hLen+psLen] = 0
		case "ps":
			db[hLen] = 0x02
		default:
			obs.Fatal("unknown forged OAEP kind %q", kind)
		}
		maskedDB := xorBytes(db, mgf1(h, seed, len(db)))
		maskedSeed := xorBytes(seed, mgf1(h, maskedDB, hLen))
		em := append([]byte{y}, maskedSeed...)
		em = append(em, maskedDB...)
		if len(em) != k {
			obs.Fatal("forged OAEP EM has length %d, want %d", len(em), k)
		}
		if new(big.Int).SetBytes(em).Cmp(kp.z.N) >= 0 {
			continue // retry with a fresh seed
		}
		return rawPublic(kp, em), nil
	}
	obs.Fatal("forgeOAEP: no seed gave an encoding below the modulus")
	return nil, nil
}

// ---- malformed public keys (Z only) ----

func badKey(kind string, good *zrsa.PublicKey) *zrsa.PublicKey {
	n, e := new(big.Int).Set(good.N), big.NewInt(65537)
	switch kind {
	case "Nnil":
		return &zrsa.PublicKey{N: nil, E: e}
	case "N0":
		return &zrsa.PublicKey{N: big.NewInt(0), E: e}
	case "Nneg":
		return &zrsa.PublicKey{N: n.Neg(n), E: e}
	case "Enil":
		return &zrsa.PublicKey{N: n, E: nil}
	case "E0":
		return &zrsa.PublicKey{N: n, E: big.NewInt(0)}
	case "Eneg":
		return &zrsa.PublicKey{N: n, E: big.NewInt(-3)}
	case "E1":
		return &zrsa.PublicKey{N: n, E: big.NewInt(1)}
	case "N6":
		return &zrsa.PublicKey{N: big.NewInt(6), E: big.NewInt(3)}
	case "N15":
		return &zrsa.PublicKey{N: big.NewInt(15), E: big.NewInt(3)}
	case "N1":
		return &zrsa.PublicKey{N: big.NewInt(1), E: big.NewInt(3)}
	}
	obs.Fatal("unknown malformed key kind %q", kind)
	return nil
}

// abstraction check for malformed keys: re-derive the kind from the real key
func badKindOf(k *zrsa.PublicKey, good *zrsa.PublicKey) string {
	switch {
	case k.N == nil:
		return "Nnil"
	case k.E == nil:
		return "Enil"
	case k.N.Sign() == 0:
		return "N0"
	case k.N.Sign() < 0:
		return "Nneg"
	case k.N.Cmp(big.NewInt(6)) == 0:
		return "N6"
	case k.N.Cmp(big.NewInt(15)) == 0:
		return "N15"
	case k.N.Cmp(big.NewInt(1)) == 0:
		return "N1"
	case k.E.Sign() == 0:
		return "E0"
	case k.E.Sign() < 0:
		return "Eneg"
	case k.E.Cmp(one) == 0:
		return "E1"
	}
	return "good"
}

func (x *executor) execBad(s step) result {
	pub := badKey(s.Bad, &x.kp.z.PublicKey)
	if badKindOf(pub, &x.kp.z.PublicKey) != s.Bad {
		obs.Fatal("malformed key %q not built as requested", s.Bad)
	}
	k := 0
	if pub.N != nil {
		k = (pub.N.BitLen() + 7) / 8
	}
	h := hashOf(s.Hash)
	d := digestBytes("same", s.Dlen)
	msg := make([]byte, s.Mlen)
	// signature candidates of the size the key announces: zeros, one, random, all ones
	var sigs [][]byte
	z := make([]byte, k)
	sigs = append(sigs, z)
	if k > 0 {
		o := make([]byte, k)
		o[k-1] = 1
		rnd := make([]byte, k)
		x.r.Read(rnd)
		rnd[0] = 0
		ff := bytes.Repeat([]byte{0xff}, k)
		sigs = append(sigs, o, rnd, ff)
	}
	anyNil := false
	var firstErr string
	for _, sig := range sigs {
		var err error
		p, to := guardOp(func() {
			switch s.Op {
			case "EncPKCS1":
				_, err = zrsa.EncryptPKCS1v15(x.r, pub, msg)
			case "EncOAEP":
				_, err = zrsa.EncryptOAEP(h.New(), x.r, pub, msg, nil)
			case "VerPKCS1":
				err = zrsa.VerifyPKCS1v15(pub, h, d, sig)
			case "VerPSS":
				err = zrsa.VerifyPSS(pub, h, d, sig, nil)
			default:
				obs.Fatal("unknown public-key op %q", s.Op)
			}
		})
		if p != "" {
			return result{Outcome: "panic", Msg: p}
		}
		if to {
			return result{Outcome: "timeout"}
		}
		if err == nil {
			anyNil = true
		} else if firstErr == "" {
			firstErr = err.Error()
		}
		if s.Op == "EncPKCS1" || s.Op == "EncOAEP" {
			break
		}
	}
	if anyNil {
		return result{Outcome: "result"}
	}
	return result{Outcome: "error", Msg: firstErr}
}

func allowed(exp []string, got string) bool {
	for _, e := range exp {
		if e == got {
			return true
		}
	}
	return false
}

type failure struct {
	Index int
	Step  step
	Got   string
	Msg   string
	Kind  string // "outcome" | "disagree"
	Prod  string
	Mut   string
}

// runOne executes a run; returns the first failing step (nil if none) and the number of executed steps.
func runOne(rn run, kp, other *keyPair, seed int64) (*failure, int) {
	x := &executor{kp: kp, other: other, r: rand.New(rand.NewSource(seed))}
	var prev result
	var prevStep step
	prod, mut := "", "none"
	n := 0
	for i, s := range rn.Steps {
		if s.Op == "Mutate" {
			x.object = mutate(x.object, s.Mut)
			mut = s.Mut
			continue
		}
		var res result
		if s.Bad != "" {
			res = x.execBad(s)
		} else {
			res = x.exec(s)
		}
		n++
		if res.Outcome == "ok" {
			x.object = res.Payload
			prod = s.Op + "/" + s.Impl
		}
		if !allowed(s.Exp, res.Outcome) {
			return &failure{Index: i, Step: s, Got: res.Outcome, Msg: res.Msg, Kind: "outcome", Prod: prod, Mut: mut}, n
		}
		if s.Agree && prevStep.Op == s.Op && (res.Outcome != prev.Outcome || !bytes.Equal(res.Payload, prev.Payload)) {
			return &failure{Index: i, Step: s, Got: res.Outcome + " vs " + prev.Outcome, Msg: res.Msg, Kind: "disagree", Prod: prod, Mut: mut}, n
		}
		prev, prevStep = res, s
	}
	return nil, n
}

func sigOf(rn run, f *failure) map[string]any {
	if f.Step.Bad != "" { // malformed public key: the key class of the run plays no role
		return map[string]any{"kind": f.Kind, "op": f.Step.Op, "bad": f.Step.Bad, "got": f.Got, "exp": strings.Join(f.Step.Exp, "|")}
	}
	return map[string]any{"kind": f.Kind, "op": f.Step.Op, "impl": f.Step.Impl, "bad": f.Step.Bad, "got": f.Got,
		"exp": strings.Join(f.Step.Exp, "|"), "prod": f.Prod, "mut": f.Mut,
		"primes": rn.Kc.Primes, "pre": rn.Kc.Pre, "eclass": rn.Kc.Exp}
}

type replayCase struct {
	Run   run         `json:"run"`
	Key   keyMaterial `json:"key"`
	Other keyMaterial `json:"other"`
	Seed  int64       `json:"seed"`
	// random-run replays
	Random *randomRun `json:"random,omitempty"`
}

func parseLine(line []byte, v any) error {
	if line[0] == '"' { // TLC prints ToJson output as a quoted TLA+ string
		var s string
		if err := json.Unmarshal(line, &s); err != nil {
			return err
		}
		line = []byte(s)
	}
	return json.Unmarshal(line, v)
}

func cmdRun(keys, runs string, shard, nshards int) {
	cache := newKeyCache(loadPool(keys))
	n, steps, bad, skippedS := 0, 0, 0, 0
	seen := map[string]bool{}
	perClass := map[string]int{}
	idx := 0
	err := obs.ReadLines(runs, func(line []byte) error {
		idx++
		if idx%nshards != shard {
			return nil
		}
		var rn run
		if err := parseLine(line, &rn); err != nil {
			return err
		}
		kp := cache.get(rn.Kc)
		other := cache.other(rn.Kc.Bits)
		if kp.s == nil {
			skippedS++
		}
		seed := obs.Seed()*1000003 + int64(idx)
		f, k := runOne(rn, kp, other, seed)
		n++
		steps += k
		perClass[fmt.Sprintf("%d/%d/%s/%s", rn.Kc.Bits, rn.Kc.Primes, rn.Kc.Pre, rn.Kc.Exp)]++
		if f != nil {
			bad++
			sig := sigOf(rn, f)
			key, _ := json.Marshal(sig)
			if !seen[string(key)] {
				seen[string(key)] = true
				rn.Steps = rn.Steps[:f.Index+1]
				obs.Emit(obs.Candidate{Sig: sig, What: fmt.Sprintf("%d-bit %d-prime %s %s key: step %d %s by %s on object of %s (mutation %s): got %s, specification allows %v %s",
					rn.Kc.Bits, rn.Kc.Primes, rn.Kc.Pre, rn.Kc.Exp, f.Index+1, f.Step.Op+f.Step.Bad, f.Step.Impl, f.Prod, f.Mut, f.Got, f.Step.Exp, f.Msg),
					Case: replayCase{Run: rn, Key: kp.mat, Other: other.mat, Seed: seed}})
			}
		}
		return nil
	})
	if err != nil {
		obs.Fatal("%v", err)
	}
	obs.Stat("runs", n)
	obs.Stat("steps", steps)
	obs.Stat("failed", bad)
	obs.Stat("z_only_runs", skippedS)
	obs.Stat("classes", len(perClass))
}

func cmdReplay(path string) {
	var rc replayCase
	obs.ReadReplay(path, &rc)
	kp := keyFromMaterial(rc.Run.Kc, rc.Key)
	other := keyFromMaterial(keyClass{Bits: rc.Run.Kc.Bits, Primes: 2, Pre: "pre", Exp: "e65537"}, rc.Other)
	// fresh randomness on purpose: a genuine disagreement does not depend on the padding bytes
	for attempt := 0; attempt < 3; attempt++ {
		f, _ := runOne(rc.Run, kp, other, rc.Seed+int64(attempt))
		if f != nil {
			fmt.Printf("reproduced: step %d %s by %s: got %s, allowed %v %s\n", f.Index+1, f.Step.Op, f.Step.Impl, f.Got, f.Step.Exp, f.Msg)
			os.Exit(1)
		}
	}
	fmt.Println("not reproduced")
}

func ints(s string) []int {
	var out []int
	for _, p := range strings.Split(s, ",") {
		n, err := strconv.Atoi(strings.TrimSpace(p))
		if err != nil {
			obs.Fatal("bad integer list %q", s)
		}
		out = append(out, n)
	}
	return out
}

func main() {
	if len(os.Args) < 3 {
		obs.Fatal("usage: c23 keys|run|replay|record|record-one ...")
	}
	switch os.Args[1] {
	case "keys":
		cmdKeys(os.Args[2], ints(os.Args[3]), ints(os.Args[4]))
	case "run":
		shard, _ := strconv.Atoi(os.Args[4])
		nsh, _ := strconv.Atoi(os.Args[5])
		cmdRun(os.Args[2], os.Args[3], shard, nsh)
	case "replay":
		var probe struct {
			Case struct {
				Random *randomRun `json:"random"`
			} `json:"case"`
		}
		b, _ := os.ReadFile(os.Args[2])
		json.Unmarshal(b, &probe)
		if probe.Case.Random != nil {
			obs.Fatal("random-run replays are judged by TLC: use record-one")
		}
		cmdReplay(os.Args[2])
	case "record":
		n, _ := strconv.Atoi(os.Args[4])
		cmdRecord(os.Args[2], os.Args[3], n)
	case "record-one":
		cmdRecordOne(os.Args[2], os.Args[3])
	default:
		obs.Fatal("unknown subcommand %q", os.Args[1])
	}
}

var _ = hex.EncodeToString
