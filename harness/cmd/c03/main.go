// c03: conformance harness binding Ideal.tla to zcrypto's signature verification.
//
//	c03 verify <cases.ndjson> <out.ndjson> <instances>   TLC-enumerated (alg, key type, target, mutation) cases,
//	                                                     each instantiated at <instances> seeded positions on every
//	                                                     verification path -> observations for TLC
//	c03 random <out.ndjson> <n>                          seeded random multi-byte mutations -> observations
//	c03 self <cases.ndjson> <out.ndjson>                 (object kind, key type, requested algorithm): create with
//	                                                     the library, verify with the object's own API
//	c03 one <replay.json> <out.ndjson>                   re-observe one case
//
// Genuine signatures are produced by the standard library ("std") and, for RSA and DSA, also by
// zcrypto's own signers ("z").  The standard library's verdict on every mutated tuple is logged
// next to zcrypto's ("a mutation that is itself a valid signature").  All verdicts are TLC's.
package main

import (
	"crypto"
	"crypto/dsa"
	"crypto/ecdsa"
	"crypto/ed25519"
	_ "crypto/md5"
	crand "crypto/rand"
	"crypto/rsa"
	_ "crypto/sha1"
	_ "crypto/sha256"
	_ "crypto/sha512"
	"encoding/asn1"
	"encoding/hex"
	"encoding/json"
	"math/big"
	"math/rand"
	"os"
	"strconv"
	"strings"
	"time"

	zdsa "github.com/zmap/zcrypto/dsa"
	zasn1 "github.com/zmap/zcrypto/encoding/asn1"
	zrsa "github.com/zmap/zcrypto/rsa"
	zx509 "github.com/zmap/zcrypto/x509"
	"github.com/zmap/zcrypto/x509/revocation/ocsp"

	"verifharness/lib/iss"
	"verifharness/lib/obs"
)

type VCase struct {
	KT     string `json:"kt"`
	Alg    string `json:"alg"`
	Target string `json:"target"`
	Mut    string `json:"mut"`
}

type GenLine struct {
	C VCase `json:"c"`
}

func hashOf(alg string) crypto.Hash {
	switch {
	case strings.HasPrefix(alg, "MD5"):
		return crypto.MD5
	case strings.Contains(alg, "SHA1"):
		return crypto.SHA1
	case strings.Contains(alg, "SHA256"):
		return crypto.SHA256
	case strings.Contains(alg, "SHA384"):
		return crypto.SHA384
	case strings.Contains(alg, "SHA512"):
		return crypto.SHA512
	}
	return 0
}

func algFamily(alg string) string {
	switch {
	case strings.HasSuffix(alg, "-RSA"), strings.HasSuffix(alg, "-RSAPSS"):
		return "rsa"
	case strings.HasPrefix(alg, "DSA-"):
		return "dsa"
	case strings.HasPrefix(alg, "ECDSA-"):
		return "ecdsa"
	case alg == "Ed25519":
		return "ed25519"
	}
	return "unknown"
}

func isPSS(alg string) bool { return strings.HasSuffix(alg, "PSS") }

func digest(h crypto.Hash, m []byte) []byte {
	if h == 0 {
		return m
	}
	x := h.New()
	x.Write(m)
	return x.Sum(nil)
}

type dsaSig struct{ R, S *big.Int }

// sign produces a genuine signature over m for (key, alg).
func sign(k *iss.Key, alg, signer string, m []byte) []byte {
	h := hashOf(alg)
	d := digest(h, m)
	var sig []byte
	var err error
	switch iss.Family(k.Type) {
	case "rsa":
		if signer == "z" {
			zk := k.Signer.(*zrsa.PrivateKey)
			if isPSS(alg) {
				sig, err = zrsa.SignPSS(crand.Reader, zk, h, d, &zrsa.PSSOptions{SaltLength: zrsa.PSSSaltLengthEqualsHash, Hash: h})
			} else {
				sig, err = zrsa.SignPKCS1v15(crand.Reader, zk, h, d)
			}
		} else {
			sk := k.StdPriv.(*rsa.PrivateKey)
			if isPSS(alg) {
				sig, err = rsa.SignPSS(crand.Reader, sk, h, d, &rsa.PSSOptions{SaltLength: rsa.PSSSaltLengthEqualsHash, Hash: h})
			} else {
				sig, err = rsa.SignPKCS1v15(crand.Reader, sk, h, d)
			}
		}
	case "ecdsa":
		sig, err = ecdsa.SignASN1(crand.Reader, k.StdPriv.(*ecdsa.PrivateKey), d)
	case "ed25519":
		sig = ed25519.Sign(k.StdPriv.(ed25519.PrivateKey), m)
	case "dsa":
		var r, s *big.Int
		if signer == "z" {
			r, s, err = zdsa.Sign(crand.Reader, k.ZDSA, d)
		} else {
			r, s, err = dsa.Sign(crand.Reader, k.StdPriv.(*dsa.PrivateKey), d)
		}
		if err == nil {
			sig, err = asn1.Marshal(dsaSig{r, s})
		}
	}
	if err != nil {
		obs.Fatal("signing with %s/%s/%s: %v", k.Type, alg, signer, err)
	}
	return sig
}

// stdVerify: the standard library's verdict under the label reading of the claimed algorithm.
func stdVerify(k *iss.Key, alg string, m, sig []byte) string {
	if algFamily(alg) != iss.Family(k.Type) {
		return "no"
	}
	h := hashOf(alg)
	if h == 0 && alg != "Ed25519" {
		return "no"
	}
	d := digest(h, m)
	ok := false
	switch iss.Family(k.Type) {
	case "rsa":
		pk := k.StdPub.(*rsa.PublicKey)
		if isPSS(alg) {
			ok = rsa.VerifyPSS(pk, h, d, sig, &rsa.PSSOptions{SaltLength: rsa.PSSSaltLengthEqualsHash}) == nil
		} else {
			ok = rsa.VerifyPKCS1v15(pk, h, d, sig) == nil
		}
	case "ecdsa":
		ok = ecdsa.VerifyASN1(k.StdPub.(*ecdsa.PublicKey), d, sig)
	case "ed25519":
		ok = ed25519.Verify(k.StdPub.(ed25519.PublicKey), m, sig)
	case "dsa":
		var ds dsaSig
		rest, err := asn1.Unmarshal(sig, &ds)
		if err == nil && len(rest) == 0 && ds.R.Sign() > 0 && ds.S.Sign() > 0 {
			ok = dsa.Verify(k.StdPub.(*dsa.PublicKey), d, ds.R, ds.S)
		}
	}
	if ok {
		return "yes"
	}
	return "no"
}

var holders = map[*iss.Key]*zx509.Certificate{}

func holder(k *iss.Key) *zx509.Certificate {
	if c, ok := holders[k]; ok {
		return c
	}
	c, err := iss.CertHolding(k)
	if err != nil {
		obs.Fatal("certificate holding a %s key: %v", k.Type, err)
	}
	holders[k] = c
	return c
}

// paths a key family can be verified through
func pathsOf(fam string) []string {
	switch fam {
	case "rsa":
		return []string{"fromkey", "cert", "raw"}
	case "ecdsa", "ed25519":
		return []string{"fromkey", "cert"}
	case "dsa":
		return []string{"fromkey", "raw"}
	}
	return nil
}

// zverify calls the code under test; accept = it returned success.  ok=false: the path cannot
// express this tuple (e.g. the raw RSA functions have no notion of an ECDSA label).
func zverify(path string, k *iss.Key, alg string, m, sig []byte) (accept bool, expressible bool, errs string) {
	var err error
	switch path {
	case "fromkey":
		err = zx509.CheckSignatureFromKey(k.ZPub, iss.SigAlgOf(alg), m, sig)
	case "cert":
		err = holder(k).CheckSignature(iss.SigAlgOf(alg), m, sig)
	case "raw":
		h := hashOf(alg)
		if algFamily(alg) != iss.Family(k.Type) || h == 0 {
			return false, false, ""
		}
		d := digest(h, m)
		switch iss.Family(k.Type) {
		case "rsa":
			if isPSS(alg) {
				err = zrsa.VerifyPSS(k.ZPub.(*zrsa.PublicKey), h, d, sig, &zrsa.PSSOptions{SaltLength: zrsa.PSSSaltLengthEqualsHash})
			} else {
				err = zrsa.VerifyPKCS1v15(k.ZPub.(*zrsa.PublicKey), h, d, sig)
			}
		case "dsa":
			var ds dsaSig
			rest, e := asn1.Unmarshal(sig, &ds)
			if e != nil || len(rest) != 0 {
				return false, false, "" // the raw function takes (r, s), not bytes
			}
			if !zdsa.Verify(k.ZPub.(*zdsa.PublicKey), d, ds.R, ds.S) {
				err = os.ErrInvalid
			}
		}
	}
	if err != nil {
		return false, true, err.Error()
	}
	return true, true, ""
}

func otherKeyType(kt string) string {
	if iss.Family(kt) == "rsa" {
		return "p256"
	}
	return "rsa2048"
}

// reencode: the same DER (r, s) with a non-minimal INTEGER r (leading 0x00).
func reencode(sig []byte) []byte {
	var ds dsaSig
	if _, err := asn1.Unmarshal(sig, &ds); err != nil {
		obs.Fatal("reencode: %v", err)
	}
	enc := func(n *big.Int, pad bool) []byte {
		b := n.Bytes()
		if len(b) == 0 || b[0]&0x80 != 0 {
			b = append([]byte{0}, b...)
		}
		if pad {
			b = append([]byte{0}, b...)
		}
		return append([]byte{2, byte(len(b))}, b...)
	}
	body := append(enc(ds.R, true), enc(ds.S, false)...)
	if len(body) < 128 {
		return append([]byte{0x30, byte(len(body))}, body...)
	}
	return append([]byte{0x30, 0x81, byte(len(body))}, body...)
}

// order of the group the (r, s) scheme of key k works in (q for DSA, n for ECDSA)
func orderOf(k *iss.Key) *big.Int {
	switch pk := k.StdPub.(type) {
	case *dsa.PublicKey:
		return pk.Q
	case *ecdsa.PublicKey:
		return pk.Curve.Params().N
	}
	return nil
}

type rawPair struct{ R, S asn1.RawValue }

func derInt(n *big.Int) asn1.RawValue {
	b, err := asn1.Marshal(n)
	if err != nil {
		obs.Fatal("derInt: %v", err)
	}
	return asn1.RawValue{FullBytes: b}
}

// signless: the magnitude of x written without a sign octet - if its top bit is set the INTEGER
// reads as a negative number ("sign-bit re-encoding"); ok=false if the top bit is clear.
func signless(x *big.Int) (asn1.RawValue, bool) {
	b := x.Bytes()
	if len(b) == 0 || b[0]&0x80 == 0 {
		return asn1.RawValue{}, false
	}
	return asn1.RawValue{Class: 0, Tag: 2, Bytes: b}, true
}

// algebraic implements the classes PairMuts / RSAMuts / MalleableMuts of Ideal.tla on a genuine
// signature b of key gk.  ok=false: not one of these classes.
func algebraic(c VCase, gk *iss.Key, b []byte, rng *rand.Rand) (out []byte, where string, ok bool) {
	switch c.Mut {
	case "plus-modulus", "zero-prepended":
		sk := gk.StdPriv.(*rsa.PrivateKey)
		if c.Mut == "zero-prepended" {
			return append([]byte{0}, b...), "00||s", true
		}
		k := (sk.N.BitLen() + 7) / 8
		x := new(big.Int).Add(new(big.Int).SetBytes(b), sk.N)
		xb := x.Bytes()
		if len(xb) <= k {
			return x.FillBytes(make([]byte, k)), "s+N/k", true
		}
		return xb, "s+N/k+1", true
	case "s-plus-order", "r-plus-order", "s-zero", "r-zero", "s-order", "r-order", "s-neg", "r-neg", "s-complement":
	default:
		return nil, "", false
	}
	var ds dsaSig
	if rest, err := asn1.Unmarshal(b, &ds); err != nil || len(rest) != 0 {
		obs.Fatal("algebraic: genuine signature is not DER (r, s): %v", err)
	}
	q := orderOf(gk)
	r, sv := derInt(ds.R), derInt(ds.S)
	switch c.Mut {
	case "s-plus-order":
		k := int64(1 + rng.Intn(3))
		where = "s+" + strconv.FormatInt(k, 10) + "*order"
		sv = derInt(new(big.Int).Add(ds.S, new(big.Int).Mul(big.NewInt(k), q)))
	case "r-plus-order":
		where = "r+order"
		r = derInt(new(big.Int).Add(ds.R, q))
	case "s-zero":
		sv = derInt(big.NewInt(0))
	case "r-zero":
		r = derInt(big.NewInt(0))
	case "s-order":
		sv = derInt(q)
	case "r-order":
		r = derInt(q)
	case "s-neg", "r-neg":
		x := ds.S
		if c.Mut == "r-neg" {
			x = ds.R
		}
		v, can := signless(x)
		where = "signless"
		if !can || rng.Intn(2) == 0 {
			v, where = derInt(new(big.Int).Neg(x)), "negated"
		}
		if c.Mut == "r-neg" {
			r = v
		} else {
			sv = v
		}
	case "s-complement":
		where = "order-s"
		sv = derInt(new(big.Int).Sub(q, ds.S))
	}
	out, err := asn1.Marshal(rawPair{r, sv})
	if err != nil {
		obs.Fatal("algebraic: %v", err)
	}
	return out, where, true
}

func flipAt(b []byte, pos int, rng *rand.Rand) []byte {
	r := append([]byte(nil), b...)
	r[pos] ^= byte(1 << uint(rng.Intn(8)))
	return r
}

// instantiate applies the abstract mutation of c; returns the tuple to verify and where it was applied.
func instantiate(c VCase, signer string, rng *rand.Rand) (k *iss.Key, alg string, m, sig []byte, where string) {
	gk := iss.KeyFor("subj", c.KT)
	m = make([]byte, 3+rng.Intn(200))
	rng.Read(m)
	sig = sign(gk, c.Alg, signer, m)
	k, alg = gk, c.Alg
	mutate := func(b []byte) []byte {
		switch c.Mut {
		case "flip-first":
			where = "0"
			return flipAt(b, 0, rng)
		case "flip-middle":
			p := 1 + rng.Intn(len(b)-2)
			where = strconv.Itoa(p)
			return flipAt(b, p, rng)
		case "flip-last":
			where = strconv.Itoa(len(b) - 1)
			return flipAt(b, len(b)-1, rng)
		case "truncate":
			n := 1 + rng.Intn(3)
			where = "-" + strconv.Itoa(n)
			return append([]byte(nil), b[:len(b)-n]...)
		case "extend":
			x := make([]byte, 1+rng.Intn(3))
			rng.Read(x)
			where = "+" + strconv.Itoa(len(x))
			return append(append([]byte(nil), b...), x...)
		case "zero":
			return make([]byte, len(b))
		case "empty":
			return []byte{}
		case "reencode":
			return reencode(b)
		case "resalt":
			h := hashOf(c.Alg)
			sl := []int{0, 1, h.Size() / 2, h.Size() - 1, h.Size() + 1}[rng.Intn(5)]
			where = "salt" + strconv.Itoa(sl)
			x, err := rsa.SignPSS(crand.Reader, gk.StdPriv.(*rsa.PrivateKey), h, digest(h, m), &rsa.PSSOptions{SaltLength: sl, Hash: h})
			if err != nil {
				obs.Fatal("resalt: %v", err)
			}
			return x
		case "badpad":
			sk := gk.StdPriv.(*rsa.PrivateKey)
			k := (sk.N.BitLen() + 7) / 8
			em := new(big.Int).Exp(new(big.Int).SetBytes(b), big.NewInt(int64(sk.E)), sk.N).FillBytes(make([]byte, k))
			if em[0] != 0 || em[1] != 1 || em[2] != 0xff {
				obs.Fatal("badpad: unexpected encoded message")
			}
			p := 2 + rng.Intn(8) // one of the first 0xff padding bytes
			where = "pad" + strconv.Itoa(p)
			em[p] = 0xfe
			return new(big.Int).Exp(new(big.Int).SetBytes(em), sk.D, sk.N).FillBytes(make([]byte, k))
		}
		if out, w, ok := algebraic(c, gk, b, rng); ok {
			where = w
			return out
		}
		if c.Mut == "zero-removed" {
			// needs a genuine signature with a leading zero octet: re-sign fresh messages until one turns up
			for try := 0; try < 20000; try++ {
				if b[0] == 0 {
					where = "lead0"
					return append([]byte(nil), b[1:]...)
				}
				m = make([]byte, 3+rng.Intn(200))
				rng.Read(m)
				b = sign(gk, c.Alg, signer, m)
			}
			obs.Fatal("zero-removed: no signature with a leading zero octet in 20000 tries")
		}
		obs.Fatal("unknown mutation %q", c.Mut)
		return nil
	}
	switch c.Target {
	case "none":
	case "msg":
		m = mutate(m)
	case "sig":
		sig = mutate(sig)
	case "key":
		if c.Mut == "other-same-type" {
			k = iss.KeyFor("other", c.KT)
		} else {
			k = iss.KeyFor("other", otherKeyType(c.KT))
		}
	case "alg":
		alg = c.Mut
	}
	return
}

func observe(w *obs.Writer, c VCase, signer string, rng *rand.Rand, extra map[string]any) {
	k, alg, m, sig, where := instantiate(c, signer, rng)
	std := "n/a"
	if c.Target != "none" {
		std = stdVerify(k, alg, m, sig)
	} else if stdVerify(k, alg, m, sig) != "yes" {
		obs.Fatal("the standard library rejects the genuine %s/%s signature made by %s", c.KT, c.Alg, signer)
	}
	for _, path := range pathsOf(iss.Family(k.Type)) {
		var acc, ok bool
		var es string
		g := obs.Guard(60*time.Second, func() { acc, ok, es = zverify(path, k, alg, m, sig) })
		if g.Panic != "" || g.Timeout {
			ok, acc, es = true, false, "PANIC/TIMEOUT: "+g.Panic
		}
		if !ok {
			continue
		}
		rec := map[string]any{"c": c, "accept": acc, "stdAccept": std, "path": path, "signer": signer, "where": where, "err": es,
			"msg": hex.EncodeToString(m), "sigLen": len(sig)}
		for kk, v := range extra {
			rec[kk] = v
		}
		w.Write(rec)
	}
}

// ---------------------------------------------------------------------------- signatures inside objects

// object: something the library created and signed with key k, with the call that verifies a
// (possibly replaced) signature value through the object's own verification API.
type object struct {
	tbs, sig []byte
	check    func(sig []byte) error
}

var objCache = map[string]*object{}

var objKinds = []string{"certfrom", "csr", "rl", "crl", "ocsp"}

// objectFor creates (once per key type / algorithm / kind) an object signed by the "subj" key of
// type kt with the requested algorithm; nil if the creation API does not take this pair.
func objectFor(kind, kt, alg string) *object {
	id := kind + "/" + kt + "/" + alg
	if o, ok := objCache[id]; ok {
		return o
	}
	var o *object
	defer func() { objCache[id] = o }()
	k := iss.KeyFor("subj", kt)
	if k.Signer == nil {
		return nil
	}
	issuer := holderCA(k)
	t0, t1 := iss.T2000.AddDate(21, 0, 0), iss.T2000.AddDate(22, 0, 0)
	switch kind {
	case "certfrom":
		tmpl := &zx509.Certificate{SerialNumber: big.NewInt(9), Subject: iss.ZName(iss.Name{CN: "c03 child"}), NotBefore: t0, NotAfter: t1,
			SignatureAlgorithm: iss.SigAlgOf(alg)}
		der, err := zx509.CreateCertificate(crand.Reader, tmpl, issuer, iss.KeyFor("other", "ed25519").ZPub, k.Signer)
		if err != nil {
			return nil
		}
		c, err := zx509.ParseCertificate(der)
		if err != nil {
			obs.Fatal("certfrom: %v", err)
		}
		o = &object{tbs: c.RawTBSCertificate, sig: c.Signature, check: func(sig []byte) error {
			cc := *c
			cc.Signature = sig
			return cc.CheckSignatureFrom(issuer)
		}}
	case "csr":
		der, err := zx509.CreateCertificateRequest(crand.Reader, &zx509.CertificateRequest{Subject: iss.ZName(iss.Name{CN: "c03 csr"}),
			SignatureAlgorithm: iss.SigAlgOf(alg)}, k.Signer)
		if err != nil {
			return nil
		}
		c, err := zx509.ParseCertificateRequest(der)
		if err != nil {
			obs.Fatal("csr: %v", err)
		}
		o = &object{tbs: c.RawTBSCertificateRequest, sig: c.Signature, check: func(sig []byte) error {
			cc := *c
			cc.Signature = sig
			return cc.CheckSignature()
		}}
	case "rl":
		der, err := zx509.CreateRevocationList(crand.Reader, &zx509.RevocationList{Number: big.NewInt(1), ThisUpdate: t0, NextUpdate: t1,
			SignatureAlgorithm: iss.SigAlgOf(alg)}, issuer, k.Signer)
		if err != nil {
			return nil
		}
		rl, err := zx509.ParseRevocationList(der)
		if err != nil {
			obs.Fatal("rl: %v", err)
		}
		o = &object{tbs: rl.RawTBSRevocationList, sig: rl.Signature, check: func(sig []byte) error {
			cc := *rl
			cc.Signature = sig
			return cc.CheckSignatureFrom(issuer)
		}}
	case "crl":
		if alg != defaultAlg(kt) {
			return nil // CreateCRL has no algorithm parameter
		}
		der, err := issuer.CreateCRL(crand.Reader, k.Signer, nil, t0, t1)
		if err != nil {
			return nil
		}
		cl, err := zx509.ParseCRL(der)
		if err != nil {
			obs.Fatal("crl: %v", err)
		}
		o = &object{tbs: cl.TBSCertList.Raw, sig: cl.SignatureValue.RightAlign(), check: func(sig []byte) error {
			cc := *cl
			cc.SignatureValue = zasn1.BitString{Bytes: sig, BitLength: 8 * len(sig)}
			return issuer.CheckCRLSignature(&cc)
		}}
	case "ocsp":
		der, err := ocsp.CreateResponse(issuer, issuer, ocsp.Response{Status: ocsp.Good, SerialNumber: big.NewInt(5), ThisUpdate: t0, NextUpdate: t1,
			SignatureAlgorithm: iss.SigAlgOf(alg)}, k.Signer)
		if err != nil {
			return nil
		}
		r, err := ocsp.ParseResponse(der, nil)
		if err != nil {
			obs.Fatal("ocsp: %v", err)
		}
		o = &object{tbs: r.TBSResponseData, sig: r.Signature, check: func(sig []byte) error {
			cc := *r
			cc.Signature = sig
			return cc.CheckSignatureFrom(issuer)
		}}
	}
	if o != nil {
		if err := o.check(o.sig); err != nil {
			obs.Fatal("%s created with %s/%s does not verify: %v", kind, kt, alg, err)
		}
		if stdVerify(k, alg, o.tbs, o.sig) != "yes" {
			obs.Fatal("%s created with %s/%s: the standard library rejects the signature", kind, kt, alg)
		}
	}
	return o
}

func defaultAlg(kt string) string {
	switch kt {
	case "p224", "p256":
		return "ECDSA-SHA256"
	case "p384":
		return "ECDSA-SHA384"
	case "p521":
		return "ECDSA-SHA512"
	case "ed25519":
		return "Ed25519"
	}
	return "SHA256-RSA"
}

var holderCAs = map[*iss.Key]*zx509.Certificate{}

// holderCA: a CA certificate (certSign, crlSign, SKID) whose subject key is k.
func holderCA(k *iss.Key) *zx509.Certificate {
	if c, ok := holderCAs[k]; ok {
		return c
	}
	c, err := iss.CAHolding(k)
	if err != nil {
		obs.Fatal("CA certificate holding a %s key: %v", k.Type, err)
	}
	holderCAs[k] = c
	return c
}

// observeObjects: the signature-only cases of c on the objects' own verification APIs.
func observeObjects(w *obs.Writer, c VCase, rng *rand.Rand) {
	if c.Target != "none" && c.Target != "sig" {
		return
	}
	switch c.Mut {
	case "resalt", "badpad", "zero-removed": // need a fresh private-key operation on the object's bytes
		return
	}
	gk := iss.KeyFor("subj", c.KT)
	for _, kind := range objKinds {
		o := objectFor(kind, c.KT, c.Alg)
		if o == nil {
			continue
		}
		sig, where := o.sig, ""
		if c.Target == "sig" {
			if out, wh, ok := algebraic(c, gk, o.sig, rng); ok {
				sig, where = out, wh
			} else {
				sig, where = byteMutate(c.Mut, o.sig, rng)
			}
		}
		std := "n/a"
		if c.Target != "none" {
			std = stdVerify(gk, c.Alg, o.tbs, sig)
		}
		var err error
		g := obs.Guard(60*time.Second, func() { err = o.check(sig) })
		es := ""
		if g.Panic != "" || g.Timeout {
			err, es = os.ErrInvalid, "PANIC/TIMEOUT: "+g.Panic
		} else if err != nil {
			es = err.Error()
		}
		w.Write(map[string]any{"c": c, "accept": err == nil, "stdAccept": std, "path": "obj:" + kind, "signer": "lib", "where": where, "err": es,
			"sigLen": len(sig)})
	}
}

// byteMutate: the position-based classes on a given signature value.
func byteMutate(mut string, b []byte, rng *rand.Rand) ([]byte, string) {
	switch mut {
	case "flip-first":
		return flipAt(b, 0, rng), "0"
	case "flip-middle":
		p := 1 + rng.Intn(len(b)-2)
		return flipAt(b, p, rng), strconv.Itoa(p)
	case "flip-last":
		return flipAt(b, len(b)-1, rng), strconv.Itoa(len(b) - 1)
	case "truncate":
		n := 1 + rng.Intn(3)
		return append([]byte(nil), b[:len(b)-n]...), "-" + strconv.Itoa(n)
	case "extend":
		x := make([]byte, 1+rng.Intn(3))
		rng.Read(x)
		return append(append([]byte(nil), b...), x...), "+" + strconv.Itoa(len(x))
	case "zero":
		return make([]byte, len(b)), ""
	case "empty":
		return []byte{}, ""
	case "reencode":
		return reencode(b), ""
	}
	obs.Fatal("byteMutate: unknown mutation %q", mut)
	return nil, ""
}

func signersOf(kt string) []string {
	if f := iss.Family(kt); f == "rsa" || f == "dsa" {
		return []string{"std", "z"}
	}
	return []string{"std"}
}

// ---------------------------------------------------------------------------- self-signed objects

type SCase struct {
	Obj string `json:"obj"`
	KT  string `json:"kt"`
	Alg string `json:"alg"`
}

func baseName(cn string) iss.Name { return iss.Name{CN: cn}.Norm() }

func selfObserve(c SCase) map[string]any {
	rec := map[string]any{"obj": c.Obj, "kt": c.KT, "alg": c.Alg, "outcome": "error", "sigOK": "n/a", "err": ""}
	put := func(o iss.Obs, field string) {
		rec["outcome"], rec["err"] = o.Outcome, o.Err
		if o.Outcome == "ok" {
			rec["sigOK"] = o.Val[field]
		}
	}
	t0 := iss.TimeRec{Sec: 662774400}
	t1 := iss.TimeRec{Sec: 663379200}
	switch c.Obj {
	case "cert":
		t := iss.CertTemplate{Serial: "05", Subject: baseName("c03.example"), RawSubject: []iss.Name{}, NB: t0, NA: t1,
			BC: true, CA: true, SigAlg: c.Alg, SignerKey: c.KT, SubjKey: c.KT,
			Parent: iss.Parent{Kind: "self", Form: "parsed", Subject: iss.Name{}.Norm(), CanSign: true}}
		r, err := iss.RunCert(t)
		if err != nil {
			obs.Fatal("%v", err)
		}
		put(r.Obs, "sigRaw")
	case "csr":
		r, err := iss.RunCSR(iss.CSRTemplate{Subject: baseName("c03.example"), RawSubject: []iss.Name{}, DNS: []string{"c03.example"},
			Key: c.KT, SigAlg: c.Alg})
		if err != nil {
			obs.Fatal("%v", err)
		}
		put(r.Obs, "sigOK")
	case "rl":
		r, err := iss.RunRL(iss.RLTemplate{Entries: []iss.RLEntry{{Serial: "07", Time: t0, Reason: 1}}, Number: "01", NumberOctets: 1,
			ThisUpdate: t0, NextUpdate: t1, SigAlg: c.Alg,
			Issuer: iss.Issuer{Subject: baseName("C03 RL Issuer"), SKID: "c0c1", Key: c.KT, CRLSign: true, CanSign: true}})
		if err != nil {
			obs.Fatal("%v", err)
		}
		put(r.Obs, "sigOK")
	case "crl":
		if c.Alg != "default" {
			rec["err"] = "CreateCRL has no algorithm parameter"
			return rec
		}
		r, err := iss.RunCRL(iss.CRLTemplate{Entries: []iss.CRLEntry{{Serial: "07", Time: t0}}, Now: t0, Expiry: t1,
			Issuer: iss.Issuer{Subject: baseName("C03 CRL Issuer"), SKID: "c0c1", Key: c.KT, CRLSign: true, CanSign: true}})
		if err != nil {
			obs.Fatal("%v", err)
		}
		put(r.Obs, "sigOK")
	case "ocsp":
		issuer, key, err := iss.IssuerFor(c.KT)
		if err != nil {
			obs.Fatal("%v", err)
		}
		tmpl := ocsp.Response{Status: ocsp.Good, SerialNumber: big.NewInt(77), ThisUpdate: t0.Time(), NextUpdate: t1.Time(),
			SignatureAlgorithm: iss.SigAlgOf(c.Alg)}
		var der []byte
		g := obs.Guard(60*time.Second, func() { der, err = ocsp.CreateResponse(issuer, issuer, tmpl, key.Signer) })
		if g.Panic != "" {
			rec["outcome"], rec["err"] = "panic", g.Panic
			return rec
		}
		if err != nil {
			rec["err"] = "create: " + err.Error()
			return rec
		}
		resp, err := ocsp.ParseResponse(der, nil)
		if err != nil {
			rec["err"] = "parse: " + err.Error()
			return rec
		}
		rec["outcome"] = "ok"
		if resp.CheckSignatureFrom(issuer) == nil {
			rec["sigOK"] = "ok"
		} else {
			rec["sigOK"] = "fail"
		}
	default:
		obs.Fatal("unknown object kind %q", c.Obj)
	}
	return rec
}

func main() {
	if len(os.Args) < 4 {
		obs.Fatal("usage")
	}
	switch os.Args[1] {
	case "verify":
		inst, _ := strconv.Atoi(os.Args[4])
		w := obs.NewWriter(os.Args[3])
		n := 0
		err := obs.ReadLines(os.Args[2], func(line []byte) error {
			var g GenLine
			if err := json.Unmarshal(line, &g); err != nil {
				return err
			}
			n++
			rng := rand.New(rand.NewSource(obs.Seed()*1000003 + int64(n)))
			k := inst
			if g.C.Target == "none" || g.C.Target == "key" || g.C.Target == "alg" || g.C.Mut == "zero" || g.C.Mut == "empty" || g.C.Mut == "reencode" || g.C.Mut == "badpad" {
				k = 2 // no position to vary: fresh message and signature only
			}
			switch g.C.Mut {
			case "s-plus-order", "s-neg", "r-neg":
				k = 4 // k = 1..3 resp. both ways of making the INTEGER negative
			case "r-plus-order", "s-zero", "r-zero", "s-order", "r-order", "s-complement", "plus-modulus", "zero-prepended":
				k = 2
			case "zero-removed":
				k = 1
			}
			for _, s := range signersOf(g.C.KT) {
				for i := 0; i < k; i++ {
					observe(w, g.C, s, rng, nil)
				}
			}
			for i := 0; i < (k+1)/2; i++ {
				observeObjects(w, g.C, rng)
			}
			return nil
		})
		if err != nil {
			obs.Fatal("%v", err)
		}
		w.Close()
		obs.Stat("cases", n)
		obs.Stat("observations", w.N)
	case "random":
		cnt, _ := strconv.Atoi(os.Args[3])
		w := obs.NewWriter(os.Args[2])
		rng := rand.New(rand.NewSource(obs.Seed()))
		kts := []string{"rsa2048", "p256", "p384", "p521", "p224", "ed25519", "dsa1024", "rsa1024"}
		algs := map[string][]string{
			"rsa":     {"MD5-RSA", "SHA1-RSA", "SHA256-RSA", "SHA384-RSA", "SHA512-RSA", "SHA256-RSAPSS", "SHA384-RSAPSS", "SHA512-RSAPSS"},
			"ecdsa":   {"ECDSA-SHA1", "ECDSA-SHA256", "ECDSA-SHA384", "ECDSA-SHA512"},
			"ed25519": {"Ed25519"}, "dsa": {"DSA-SHA1", "DSA-SHA256"}}
		for i := 0; i < cnt; i++ {
			kt := kts[rng.Intn(len(kts))]
			al := algs[iss.Family(kt)]
			c := VCase{KT: kt, Alg: al[rng.Intn(len(al))], Target: []string{"msg", "sig", "sig", "none"}[rng.Intn(4)], Mut: "multi"}
			if kt == "rsa1024" && c.Alg == "SHA512-RSAPSS" {
				continue // no room in a 1024-bit modulus (CanSign of Ideal.tla)
			}
			if c.Target == "none" {
				c.Mut = "none"
				observe(w, c, signersOf(kt)[rng.Intn(len(signersOf(kt)))], rng, nil)
				continue
			}
			// multi-byte mutation: 2..6 byte edits, possibly with a length change; abstractly a
			// "flip-middle" of the target (any byte-level change is the same term Mangled / M')
			gk := iss.KeyFor("subj", kt)
			signer := signersOf(kt)[rng.Intn(len(signersOf(kt)))]
			m := make([]byte, 3+rng.Intn(200))
			rng.Read(m)
			sig := sign(gk, c.Alg, signer, m)
			tgt := &m
			if c.Target == "sig" {
				tgt = &sig
			}
			b := append([]byte(nil), (*tgt)...)
			orig := append([]byte(nil), b...)
			for e := 2 + rng.Intn(5); e > 0 && len(b) > 0; e-- {
				switch rng.Intn(5) {
				case 0:
					b = b[:len(b)-1]
				case 1:
					b = append(b, byte(rng.Intn(256)))
				default:
					b[rng.Intn(len(b))] ^= byte(1 + rng.Intn(255))
				}
			}
			if string(b) == string(orig) {
				continue
			}
			*tgt = b
			// abstract class of the edit: only appended / only cut / bytes changed
			switch {
			case len(b) > len(orig) && string(b[:len(orig)]) == string(orig):
				c.Mut = "extend"
			case len(b) < len(orig) && string(orig[:len(b)]) == string(b):
				c.Mut = "truncate"
			default:
				c.Mut = "flip-middle"
			}
			std := stdVerify(gk, c.Alg, m, sig)
			for _, path := range pathsOf(iss.Family(kt)) {
				acc, ok, es := zverify(path, gk, c.Alg, m, sig)
				if !ok {
					continue
				}
				w.Write(map[string]any{"c": c, "accept": acc, "stdAccept": std, "path": path, "signer": signer, "where": "multi", "err": es,
					"msg": hex.EncodeToString(m), "sig": hex.EncodeToString(sig), "sigLen": len(sig)})
			}
		}
		w.Close()
		obs.Stat("observations", w.N)
	case "self":
		w := obs.NewWriter(os.Args[3])
		n, created := 0, 0
		err := obs.ReadLines(os.Args[2], func(line []byte) error {
			var c SCase
			if err := json.Unmarshal(line, &c); err != nil {
				return err
			}
			n++
			r := selfObserve(c)
			if r["outcome"] == "ok" {
				created++
			}
			w.Write(r)
			return nil
		})
		if err != nil {
			obs.Fatal("%v", err)
		}
		w.Close()
		obs.Stat("cases", n)
		obs.Stat("created", created)
	case "one":
		var rc struct {
			C      *VCase `json:"c"`
			Self   *SCase `json:"self"`
			Signer string `json:"signer"`
			Path   string `json:"path"`
		}
		obs.ReadReplay(os.Args[2], &rc)
		w := obs.NewWriter(os.Args[3])
		if rc.Self != nil {
			w.Write(selfObserve(*rc.Self))
		} else {
			// the abstract case is re-instantiated at fresh seeded positions on every path
			rng := rand.New(rand.NewSource(obs.Seed() + 4242))
			s := rc.Signer
			if s == "" {
				s = "std"
			}
			n := 24
			if rc.C.Mut == "zero-removed" {
				n = 2
			}
			for i := 0; i < n; i++ {
				observe(w, *rc.C, s, rng, nil)
				observeObjects(w, *rc.C, rng)
			}
		}
		w.Close()
	default:
		obs.Fatal("unknown command")
	}
}
