// c17: conformance harness binding CTScanner.tla to ct/scanner.Scanner.Scan.
//
//	c17 run <cases.ndjson> <trace-out.ndjson>   run every case on the real Scan against the scripted
//	                                            fake log; hook events + observations -> trace for TLC
//	c17 gen-free <out-cases.ndjson> <n>         seeded random configurations / server policies
//	c17 race <cases.ndjson>                     (binary built with -race) same cases, hooks nil,
//	                                            no synchronisation added by the harness
//	c17 replay <replay.json> <trace-out.ndjson> one case (file written by the runner)
//
// The harness executes and records; whether a recorded execution is allowed is decided by TLC
// (Trace_CTScanner.tla), race reports are produced by the Go race detector.
package main

import (
	"encoding/json"
	"fmt"
	"io"
	"math/rand"
	"os"
	"runtime"
	"runtime/debug"
	"runtime/pprof"
	"strconv"
	"sync"
	"sync/atomic"
	"time"

	"github.com/sirupsen/logrus"
	"github.com/zmap/zcrypto/ct"
	"github.com/zmap/zcrypto/ct/client"
	"github.com/zmap/zcrypto/ct/scanner"
	ctx509 "github.com/zmap/zcrypto/ct/x509"
	"verifharness/lib/ctlog"
	"verifharness/lib/obs"
)

type Cfg struct {
	Start  int64    `json:"start"`
	Size   int      `json:"size"`
	MaxIdx int64    `json:"maxIdx"`
	Batch  int64    `json:"batch"`
	NF     int      `json:"nf"`
	NM     int      `json:"nm"`
	Kinds  []string `json:"kinds"`
	PO     bool     `json:"po"`
	Ign    bool     `json:"ign"`
}

// SchedEv is one event of a TLC behaviour of CTScannerImpl.tla (hist):
// {"t":"ans","r":<first index of the range>,"n":<entries returned, 0 = transient error>}
// {"t":"enq","i":<index enqueued for the matchers>}
// {"t":"proc","i":<index whose processing completes>}
type SchedEv struct {
	T string `json:"t"`
	R int64  `json:"r"`
	N int    `json:"n"`
	I int64  `json:"i"`
}

type Case struct {
	Cfg   Cfg       `json:"cfg"`
	Ev    []SchedEv `json:"ev,omitempty"`
	Mode  string    `json:"mode"`  // "sched": force Ev ; "free": seeded random policy
	RSeed int64     `json:"rseed"` // policy / perturbation seed
	Slow  int       `json:"slow"`  // free mode: hold one answer for Slow ms (ticker scenarios)
	PErr  int       `json:"perr"`  // free mode: per-request error probability in percent
	PCut  int       `json:"pcut"`  // free mode: per-request truncation probability in percent
}

// Event is one trace line for Trace_CTScanner.tla; every event carries every field.
type Event struct {
	Ev  string `json:"ev"`
	ID  int    `json:"id"`
	A   int64  `json:"a"`
	B   int64  `json:"b"`
	Err bool   `json:"err"`
	Pos int    `json:"pos"`
	G   string `json:"g"`  // goroutine the event was recorded on
	GS  int    `json:"gs"` // per-goroutine sequence number
	// reset only
	Start  *int64   `json:"start,omitempty"`
	Size   *int     `json:"size,omitempty"`
	MaxIdx *int64   `json:"maxIdx,omitempty"`
	Batch  *int64   `json:"batch,omitempty"`
	NF     *int     `json:"nf,omitempty"`
	NM     *int     `json:"nm,omitempty"`
	Kinds  *[]string `json:"kinds,omitempty"`
	PO     *bool    `json:"po,omitempty"`
	Hooks  *bool    `json:"hooks,omitempty"`
	Case   int      `json:"case"` // index of the case in the input file (not used by TLC)
	Note   string   `json:"note,omitempty"`
}

// ---------------------------------------------------------------------------- recorder

type recorder struct {
	mu   sync.Mutex
	evs  []Event
	gseq map[string]int
	rng  *rand.Rand
	pert bool
}

func (r *recorder) add(g string, e Event) {
	r.mu.Lock()
	e.G = g
	r.gseq[g]++
	e.GS = r.gseq[g]
	r.evs = append(r.evs, e)
	y := 0
	if r.pert {
		y = r.rng.Intn(16)
	}
	r.mu.Unlock()
	switch {
	case y == 1 || y == 2:
		runtime.Gosched()
	case y == 3:
		time.Sleep(time.Duration(20+y*10) * time.Microsecond)
	}
}

// ---------------------------------------------------------------------------- gate

// gate forces the global order of server answers and matcher completions of a TLC behaviour.
// If the code under test does not produce the next scheduled event for stall, the schedule is
// abandoned (everything runs free): that is model drift, never a verdict.
type gate struct {
	mu        sync.Mutex
	cond      *sync.Cond
	sched     []SchedEv
	p         int
	busy      bool // a "proc" event was admitted and has not completed
	abandoned bool
	waiters   int
	lastMove  time.Time
	holdUntil time.Time
	stop      chan struct{}
	once      sync.Once
}

func newGate(s []SchedEv, stall time.Duration) *gate {
	g := &gate{sched: s, lastMove: time.Now(), stop: make(chan struct{})}
	g.cond = sync.NewCond(&g.mu)
	go func() {
		t := time.NewTicker(20 * time.Millisecond)
		defer t.Stop()
		for {
			select {
			case <-g.stop:
				return
			case <-t.C:
				g.mu.Lock()
				if !g.abandoned && g.waiters > 0 && time.Since(g.lastMove) > stall {
					g.abandoned = true
					g.cond.Broadcast()
				}
				g.mu.Unlock()
			}
		}
	}()
	return g
}

func (g *gate) close() {
	g.once.Do(func() { close(g.stop) })
	g.mu.Lock()
	g.abandoned = true
	g.cond.Broadcast()
	g.mu.Unlock()
}

// wait blocks until the head of the schedule matches; ok = false: no (more) schedule.
func (g *gate) wait(match func(SchedEv) bool) (SchedEv, bool) {
	g.mu.Lock()
	defer g.mu.Unlock()
	g.waiters++
	defer func() { g.waiters-- }()
	for {
		if g.abandoned || g.p >= len(g.sched) {
			return SchedEv{}, false
		}
		if !g.busy && match(g.sched[g.p]) {
			if d := time.Until(g.holdUntil); d > 0 {
				g.mu.Unlock()
				time.Sleep(d)
				g.mu.Lock()
				continue
			}
			e := g.sched[g.p]
			if e.T == "proc" {
				g.busy = true
			} else {
				g.p++
			}
			if e.T == "enq" && g.p < len(g.sched) && g.sched[g.p].T == "enq" {
				// the send follows the hook; give it a moment before the next enqueue is admitted
				g.holdUntil = time.Now().Add(300 * time.Microsecond)
			}
			g.lastMove = time.Now()
			g.cond.Broadcast()
			return e, true
		}
		g.cond.Wait()
	}
}

func (g *gate) procDone() {
	g.mu.Lock()
	if g.busy {
		g.busy = false
		g.p++
		g.lastMove = time.Now()
		g.cond.Broadcast()
	}
	g.mu.Unlock()
}

// ---------------------------------------------------------------------------- matcher

type recMatcher struct{ rec *recorder }

func posOfSerial(c *ctx509.Certificate) int {
	if c == nil || c.SerialNumber == nil || !c.SerialNumber.IsInt64() {
		return -1
	}
	return int(c.SerialNumber.Int64()) - ctlog.SerialBase
}

func (m recMatcher) CertificateMatches(c *ctx509.Certificate) bool {
	m.rec.add("cb", Event{Ev: "mc", Pos: posOfSerial(c)})
	return true
}

func (m recMatcher) PrecertificateMatches(p *ct.Precertificate) bool {
	m.rec.add("cb", Event{Ev: "mc", Pos: posOfSerial(p.TBSCertificate)})
	return true
}

// ---------------------------------------------------------------------------- one case

var (
	srv     *ctlog.Server
	curHook atomic.Value // func(ev string, id int, a, b int64, err error)
)

func quietLogger() *logrus.Logger {
	l := logrus.New()
	l.SetOutput(io.Discard)
	l.SetLevel(logrus.PanicLevel)
	return l
}

func faultKind(seed int64, k int) string {
	// 503/429/drop/badjson/badleaf are retried immediately by the scanner; 500 and an empty
	// list make it sleep 500 ms and are used sparingly.
	kinds := []string{"503", "429", "drop", "badjson", "badleaf", "503", "502", "503"}
	h := uint64(seed)*2862933555777941757 + uint64(k)*3037000493 + 12345
	h ^= h >> 29
	if obs.Thorough() && h%97 == 0 {
		if h%2 == 0 {
			return "500"
		}
		return "empty"
	}
	return kinds[(h>>8)%uint64(len(kinds))]
}

func rangeStart(c Cfg, start int64) int64 {
	if c.Batch <= 0 {
		return start
	}
	return c.Start + (start-c.Start)/c.Batch*c.Batch
}

// normal latency of a scan in these configurations is 5-50 ms (1.3 s for the deliberately slow ones)
const watchdog = 45 * time.Second

// runCase executes the case on the real Scan and returns the trace (reset ... ret).
func runCase(ci int, c Case, hooks bool) (evs []Event, note string) {
	rec := &recorder{gseq: map[string]int{}, rng: rand.New(rand.NewSource(c.RSeed)), pert: c.Mode == "free"}
	cfg := c.Cfg
	for p := 0; p < cfg.Size; p++ {
		ctlog.GetEntry(p, cfg.Kinds[p]) // build outside the scan
	}
	hk := hooks
	kindsCopy := append([]string{}, cfg.Kinds...)
	rec.add("main", Event{Ev: "reset", Start: &cfg.Start, Size: &cfg.Size, MaxIdx: &cfg.MaxIdx, Batch: &cfg.Batch,
		NF: &cfg.NF, NM: &cfg.NM, Kinds: &kindsCopy, PO: &cfg.PO, Hooks: &hk, Case: ci})

	var g *gate
	gated := map[string]bool{}
	for _, e := range c.Ev {
		gated[e.T] = true
	}
	if c.Mode == "sched" {
		g = newGate(c.Ev, 3*time.Second)
		defer g.close()
	}
	var pmu sync.Mutex
	prng := rand.New(rand.NewSource(c.RSeed ^ 0x5DEECE66D))
	streak := map[int64]int{}
	slowLeft := c.Slow
	nreq := 0
	sc := &ctlog.Scenario{Size: cfg.Size, Kinds: cfg.Kinds}
	sc.Decide = func(start, end int64) ctlog.Answer {
		if g != nil {
			r0 := rangeStart(cfg, start)
			e, ok := g.wait(func(e SchedEv) bool { return e.T == "ans" && e.R == r0 })
			if !ok {
				return ctlog.Answer{N: int(end - start + 1)}
			}
			pmu.Lock()
			nreq++
			k := nreq
			pmu.Unlock()
			if e.N == 0 {
				return ctlog.Answer{Fault: faultKind(c.RSeed, k)}
			}
			return ctlog.Answer{N: e.N}
		}
		pmu.Lock()
		defer pmu.Unlock()
		nreq++
		a := ctlog.Answer{N: int(end - start + 1)}
		if slowLeft > 0 && nreq == 2 {
			a.Delay = time.Duration(slowLeft) * time.Millisecond
			slowLeft = 0
		} else if prng.Intn(4) == 0 {
			a.Delay = time.Duration(prng.Intn(1500)) * time.Microsecond
		}
		r0 := rangeStart(cfg, start)
		x := prng.Intn(100)
		switch {
		case x < c.PErr && streak[r0] < 3:
			streak[r0]++
			a.N, a.Fault = 0, faultKind(c.RSeed, nreq)
		case x < c.PErr+c.PCut && end > start:
			a.N = 1 + prng.Intn(int(end-start))
			streak[r0] = 0
		default:
			streak[r0] = 0
		}
		return a
	}
	uri := srv.Add(sc)
	defer srv.Remove(sc)

	if hooks {
		curHook.Store(func(ev string, id int, a, b int64, err error) {
			gname := "main"
			switch ev {
			case "range", "fetch", "enq":
				gname = "f" + strconv.Itoa(id)
			case "deq", "done":
				gname = "m" + strconv.Itoa(id)
			case "ctr":
				gname = "m?"
			case "tick":
				gname = "tick"
			}
			rec.add(gname, Event{Ev: ev, ID: id, A: a, B: b, Err: err != nil})
			if g != nil {
				// only the event kinds the schedule contains are forced (a server script has answers only)
				switch {
				case ev == "enq" && gated["enq"]:
					g.wait(func(e SchedEv) bool { return e.T == "enq" && e.I == a })
				case ev == "deq" && gated["proc"]:
					g.wait(func(e SchedEv) bool { return e.T == "proc" && e.I == a })
				case ev == "done" && gated["proc"]:
					g.procDone()
				}
			}
		})
		defer curHook.Store(func(string, int, int64, int64, error) {})
	}

	opts := scanner.ScannerOptions{Matcher: recMatcher{rec}, PrecertOnly: cfg.PO, BatchSize: cfg.Batch,
		NumWorkers: cfg.NM, ParallelFetch: cfg.NF, StartIndex: cfg.Start, Quiet: true, Name: "fake",
		MaximumIndex: cfg.MaxIdx, IgnoreParsingErrors: cfg.Ign}
	s := scanner.NewScanner(client.New(uri), opts, quietLogger())
	found := func(via string) func(*ct.LogEntry, string) {
		return func(e *ct.LogEntry, _ string) {
			rec.add("cb", Event{Ev: "cb", A: e.Index, Pos: ctlog.PosOfRaw(e.RawCert)})
		}
	}
	var ret int64
	var serr error
	updater := make(chan int64, 1<<16)
	o := obs.Guard(watchdog, func() { ret, serr = s.Scan(found("cert"), found("precert"), updater) })
	if o.Panic != "" {
		note = "panic: " + o.Panic
	}
	completed := int64(1)
	if o.Timeout || o.Panic != "" {
		completed = 0
		if g != nil {
			g.close()
		}
	}
	// "ret" is recorded the moment Scan returns: a delivery that shows up after it (Scan returned
	// before the scan was complete) is refused by the monitor
	rec.add("main", Event{Ev: "ret", A: ret, B: completed, Err: serr != nil, Note: note})
	if completed == 1 {
		time.Sleep(500 * time.Microsecond)
		cp, ps, un, nf := s.VerifCTCounters()
		rec.add("main", Event{Ev: "counters", ID: int(cp), A: ps, B: un, Pos: int(nf)})
	}
	if g != nil {
		g.mu.Lock()
		if g.p < len(g.sched) {
			note += fmt.Sprintf(" schedule-not-followed(at %d of %d)", g.p, len(g.sched))
		}
		g.mu.Unlock()
	}
	rec.mu.Lock()
	evs = append([]Event{}, rec.evs...)
	rec.mu.Unlock()
	for i := range evs {
		evs[i].Case = ci
	}
	return evs, note
}

func readCases(path string) []Case {
	var cases []Case
	err := obs.ReadLines(path, func(line []byte) error {
		if line[0] == '"' { // TLC prints ToJson output as a quoted TLA+ string
			var s string
			if err := json.Unmarshal(line, &s); err != nil {
				return err
			}
			line = []byte(s)
		}
		var c Case
		if err := json.Unmarshal(line, &c); err != nil {
			return err
		}
		if c.Mode == "" {
			c.Mode = "sched"
		}
		cases = append(cases, c)
		return nil
	})
	if err != nil {
		obs.Fatal("read cases: %v", err)
	}
	return cases
}

func installHook() {
	curHook.Store(func(string, int, int64, int64, error) {})
	scanner.VerifCTSetHook(func(ev string, id int, a, b int64, err error) {
		curHook.Load().(func(string, int, int64, int64, error))(ev, id, a, b, err)
	})
}

func progress(path string, i int) {
	if i%8 == 7 {
		runtime.GC()
	}
	if path != "" {
		os.WriteFile(path, []byte(strconv.Itoa(i)), 0o644)
	}
}

func main() {
	if len(os.Args) < 3 {
		obs.Fatal("usage")
	}
	// every Scan allocates a 100000-slot channel of ~230-byte jobs (23 MB with pointers).  With the
	// default GC pacing that buffer is re-marked several times per scan (measured: 0.8 s per empty
	// scan on the loaded machine); the collector is therefore run explicitly between cases.
	if pf := os.Getenv("C17_CPUPROFILE"); pf != "" {
		f, _ := os.Create(pf)
		pprof.StartCPUProfile(f)
		defer pprof.StopCPUProfile()
	}
	debug.SetGCPercent(-1)
	srv = ctlog.NewServer()
	defer srv.Close()
	switch os.Args[1] {
	case "run":
		cases := readCases(os.Args[2])
		w := obs.NewWriter(os.Args[3])
		installHook()
		nev, drift := 0, 0
		for i, c := range cases {
			progress(os.Getenv("C17_PROGRESS"), i)
			evs, note := runCase(i, c, true)
			if note != "" {
				drift++
				fmt.Printf("NOTE case %d: %s\n", i, note)
			}
			hung := false
			for _, e := range evs {
				w.Write(e)
				if e.Ev == "ret" && e.B == 0 {
					hung = true
				}
			}
			nev += len(evs)
			if hung {
				// goroutines of the hung scan cannot be stopped: leave the process, the runner
				// continues with the remaining cases in a fresh one (exit code 4)
				w.Close()
				obs.Stat("hung_at", i)
				os.Stdout.Sync()
				os.Exit(4)
			}
		}
		w.Close()
		progress(os.Getenv("C17_PROGRESS"), -1)
		obs.Stat("cases", len(cases))
		obs.Stat("events", nev)
		obs.Stat("notes", drift)
	case "gen-free":
		n, _ := strconv.Atoi(os.Args[3])
		w := obs.NewWriter(os.Args[2])
		rng := rand.New(rand.NewSource(obs.Seed()*7919 + 17))
		for i := 0; i < n; i++ {
			w.Write(randomCase(rng, i))
		}
		w.Close()
	case "race":
		// hooks stay nil; the matcher and the callbacks do not synchronise.
		cases := readCases(os.Args[2])
		for i, c := range cases {
			progress(os.Getenv("C17_PROGRESS"), i)
			runRace(c)
		}
		progress(os.Getenv("C17_PROGRESS"), -1)
		obs.Stat("cases", len(cases))
	case "replay":
		var c Case
		obs.ReadReplay(os.Args[2], &c)
		if len(os.Args) < 4 {
			obs.Fatal("usage: replay <file> <trace-out>")
		}
		if c.Mode == "race" {
			runRace(c)
			return
		}
		installHook()
		w := obs.NewWriter(os.Args[3])
		evs, note := runCase(0, c, true)
		for _, e := range evs {
			w.Write(e)
		}
		w.Close()
		if note != "" {
			fmt.Printf("NOTE %s\n", note)
		}
	default:
		obs.Fatal("unknown command")
	}
}

var kindSets = [][]string{
	{"cert"}, {"precert"}, {"cert", "precert"}, {"precert", "unparsable", "cert", "nonfatal", "precert"},
	{"nonfatal", "precert"}, {"unparsable"}, {"cert", "cert", "precert", "unparsable"},
}

func randomCase(rng *rand.Rand, i int) Case {
	size := rng.Intn(25)
	if rng.Intn(8) == 0 {
		size = 25 + rng.Intn(60)
	}
	c := Cfg{Size: size, Batch: int64(1 + rng.Intn(7)), NF: 1 + rng.Intn(4), NM: 1 + rng.Intn(4)}
	if rng.Intn(6) == 0 {
		c.Batch = int64(size + rng.Intn(3) + 1)
	}
	if size > 0 && rng.Intn(2) == 0 {
		c.Start = int64(rng.Intn(size + 1))
	}
	if size > 0 && rng.Intn(3) == 0 {
		c.MaxIdx = int64(1 + rng.Intn(size))
	}
	ks := kindSets[rng.Intn(len(kindSets))]
	off := rng.Intn(len(ks))
	c.Kinds = make([]string, size)
	for p := range c.Kinds {
		c.Kinds[p] = ks[(p+off)%len(ks)]
	}
	c.PO = rng.Intn(8) == 0
	c.Ign = rng.Intn(8) == 0
	cs := Case{Cfg: c, Mode: "free", RSeed: rng.Int63(), PErr: []int{0, 10, 25}[rng.Intn(3)], PCut: []int{0, 20, 45}[rng.Intn(3)]}
	return cs
}

// ---------------------------------------------------------------------------- race runs

type quietMatcher struct{}

func spin() {
	// keeps the matcher goroutine busy for a moment without any synchronisation
	x := 0
	for i := 0; i < 2000; i++ {
		x += i
	}
	if x == 42 {
		fmt.Print("")
	}
	runtime.Gosched()
}
func (quietMatcher) CertificateMatches(*ctx509.Certificate) bool { spin(); return true }
func (quietMatcher) PrecertificateMatches(*ct.Precertificate) bool { spin(); return true }

func runRace(c Case) {
	cfg := c.Cfg
	for p := 0; p < cfg.Size; p++ {
		ctlog.GetEntry(p, cfg.Kinds[p])
	}
	var pmu sync.Mutex
	prng := rand.New(rand.NewSource(c.RSeed))
	nreq := 0
	slowLeft := c.Slow
	sc := &ctlog.Scenario{Size: cfg.Size, Kinds: cfg.Kinds}
	sc.Decide = func(start, end int64) ctlog.Answer {
		pmu.Lock()
		defer pmu.Unlock()
		nreq++
		a := ctlog.Answer{N: int(end - start + 1)}
		if slowLeft > 0 && nreq == 2 {
			a.Delay = time.Duration(slowLeft) * time.Millisecond
			slowLeft = 0
		}
		x := prng.Intn(100)
		if x < c.PErr {
			a.N, a.Fault = 0, "503"
		} else if x < c.PErr+c.PCut && end > start {
			a.N = 1 + prng.Intn(int(end-start))
		}
		return a
	}
	uri := srv.Add(sc)
	defer srv.Remove(sc)
	opts := scanner.ScannerOptions{Matcher: quietMatcher{}, PrecertOnly: cfg.PO, BatchSize: cfg.Batch,
		NumWorkers: cfg.NM, ParallelFetch: cfg.NF, StartIndex: cfg.Start, Quiet: true, Name: "fake",
		MaximumIndex: cfg.MaxIdx, IgnoreParsingErrors: cfg.Ign}
	s := scanner.NewScanner(client.New(uri), opts, quietLogger())
	nop := func(*ct.LogEntry, string) {}
	updater := make(chan int64, 1<<16)
	o := obs.Guard(watchdog, func() { s.Scan(nop, nop, updater) })
	if o.Timeout || o.Panic != "" {
		fmt.Printf("NOTE race run did not complete: timeout=%v panic=%q\n", o.Timeout, o.Panic)
	}
}
