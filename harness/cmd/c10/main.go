// c10: conformance harness binding Graph.tla to verifier.Graph (AddCert / AddRoot).
//
//	c10 replay-gen <catalog.ndjson> <histories.ndjson> <obs_out.ndjson>
//	      TLC-generated insertion histories (JSON arrays of operation codes 2*index+root) are
//	      replayed on fresh real graphs; the graph is observed after every insertion; each
//	      distinct observation is written once, with the history prefix that produced it.
//	c10 record <obs_out.ndjson> <pkis> <mincerts> <maxcerts>
//	      seeded random PKIs inserted in random order with duplicates and root re-insertions.
//	c10 record-one <replay.json> <obs_out.ndjson>
//	      re-run the history of a replay file, one observation per insertion.
//
// The observations are judged by TLC (Trace_Graph.tla); this program never decides.
package main

import (
	"encoding/json"
	"fmt"
	"math/rand"
	"os"
	"runtime"
	"strconv"
	"sync"

	"verifharness/lib/graphobs"
	"verifharness/lib/obs"
)

// Rec is one line of the observation file.
type Rec struct {
	Obs  graphobs.Obs     `json:"obs"`
	Hist graphobs.History `json:"hist"` // the insertion history (prefix) that produced it
	Step int              `json:"step"`
}

func loadCatalog(path string) []graphobs.AbsCert {
	var cat []graphobs.AbsCert
	err := obs.ReadLines(path, func(line []byte) error {
		var c graphobs.AbsCert
		if err := json.Unmarshal(line, &c); err != nil {
			return err
		}
		if c.DNS == nil {
			c.DNS = []string{}
		}
		cat = append(cat, c)
		return nil
	})
	if err != nil {
		obs.Fatal("catalog: %v", err)
	}
	return cat
}

func workers() int {
	if n, err := strconv.Atoi(os.Getenv("VERIF_WORKERS")); err == nil && n > 0 {
		return n
	}
	return runtime.NumCPU()
}

// runHistory replays h on a fresh graph and calls f with the observation after each step.
func runHistory(p *graphobs.Pool, h graphobs.History, f func(step int, o graphobs.Obs)) {
	byID := map[string]graphobs.AbsCert{}
	for _, c := range h.Certs {
		byID[c.ID] = c
	}
	b := graphobs.NewBuilder(p)
	for i, op := range h.Ops {
		c, ok := byID[op.C]
		if !ok {
			obs.Fatal("history names unknown certificate %q", op.C)
		}
		pan := b.Apply(c, op.Root)
		o := b.Observe()
		o.Panic = pan
		f(i+1, o)
		if pan != "" {
			return
		}
	}
}

// fixupOpportunities counts the insertions that create a node which an earlier inserted,
// still issuer-less certificate names as issuer (abstract attributes only).
func fixupOpportunities(h graphobs.History) int {
	byID := map[string]graphobs.AbsCert{}
	for _, c := range h.Certs {
		byID[c.ID] = c
	}
	nodes := map[[2]string]bool{}
	waiting := map[[2]string]int{}
	seen := map[string]bool{}
	n := 0
	for _, op := range h.Ops {
		c := byID[op.C]
		if seen[c.ID] {
			continue
		}
		seen[c.ID] = true
		nd := [2]string{c.Subj, c.Key}
		if !nodes[nd] {
			nodes[nd] = true
			if waiting[nd] > 0 {
				n++
				waiting[nd] = 0
			}
		}
		is := [2]string{c.Iss, c.SKey}
		if !nodes[is] {
			waiting[is]++
		}
	}
	return n
}

func main() {
	if len(os.Args) < 3 {
		obs.Fatal("usage")
	}
	switch os.Args[1] {
	case "replay-gen":
		cat := loadCatalog(os.Args[2])
		p := graphobs.NewPool()
		var hists [][]int
		if err := obs.ReadLines(os.Args[3], func(line []byte) error {
			var h []int
			if err := json.Unmarshal(line, &h); err != nil {
				return err
			}
			hists = append(hists, h)
			return nil
		}); err != nil {
			obs.Fatal("histories: %v", err)
		}
		w := obs.NewWriter(os.Args[4])
		var mu sync.Mutex
		seen := map[string]bool{}
		steps, fixups := 0, 0
		var wg sync.WaitGroup
		ch := make(chan []int, 256)
		for i := 0; i < workers(); i++ {
			wg.Add(1)
			go func() {
				defer wg.Done()
				for codes := range ch {
					h := graphobs.History{}
					have := map[string]bool{}
					for _, code := range codes {
						idx := code / 2
						if idx < 1 || idx > len(cat) {
							obs.Fatal("operation code %d outside the catalogue", code)
						}
						c := cat[idx-1]
						if !have[c.ID] {
							have[c.ID] = true
							h.Certs = append(h.Certs, c)
						}
						h.Ops = append(h.Ops, graphobs.Op{C: c.ID, Root: code%2 == 1})
					}
					// input-side bookkeeping (independent of the code under test): does the
					// history insert a certificate after a certificate it issues?
					fx := fixupOpportunities(h)
					runHistory(p, h, func(step int, o graphobs.Obs) {
						k := graphobs.Key(o)
						mu.Lock()
						steps++
						if step == 1 {
							fixups += fx
						}
						dup := seen[k]
						seen[k] = true
						if !dup {
							w.Write(Rec{Obs: o, Hist: graphobs.History{Certs: h.Certs, Ops: h.Ops[:step]}, Step: step})
						}
						mu.Unlock()
					})
				}
			}()
		}
		for _, h := range hists {
			ch <- h
		}
		close(ch)
		wg.Wait()
		w.Close()
		obs.Stat("histories", len(hists))
		obs.Stat("steps", steps)
		obs.Stat("fixup_steps", fixups)
		obs.Stat("distinct_observations", w.N)
	case "record":
		n, _ := strconv.Atoi(os.Args[3])
		lo, _ := strconv.Atoi(os.Args[4])
		hi, _ := strconv.Atoi(os.Args[5])
		rng := rand.New(rand.NewSource(obs.Seed()))
		w := obs.NewWriter(os.Args[2])
		p := graphobs.NewPool()
		steps := 0
		for t := 0; t < n; t++ {
			h := graphobs.RandomHistory(rng, fmt.Sprintf("t%d", t), lo+rng.Intn(hi-lo+1))
			every := 1 + rng.Intn(4)
			runHistory(p, h, func(step int, o graphobs.Obs) {
				steps++
				if step%every == 0 || step == len(h.Ops) || o.Panic != "" {
					w.Write(Rec{Obs: o, Hist: graphobs.History{Certs: h.Certs, Ops: h.Ops[:step]}, Step: step})
				}
			})
		}
		w.Close()
		obs.Stat("pkis", n)
		obs.Stat("steps", steps)
		obs.Stat("observations", w.N)
	case "record-one":
		var h graphobs.History
		obs.ReadReplay(os.Args[2], &h)
		w := obs.NewWriter(os.Args[3])
		p := graphobs.NewPool()
		runHistory(p, h, func(step int, o graphobs.Obs) {
			w.Write(Rec{Obs: o, Hist: graphobs.History{Certs: h.Certs, Ops: h.Ops[:step]}, Step: step})
		})
		w.Close()
	default:
		obs.Fatal("unknown command %q", os.Args[1])
	}
}
