package main

// Harness-owned transport for C34: an in-memory duplex byte pipe.  The end handed to the
// connection under test (gateConn) passes every Read and Write through a gate that only the
// scheduler opens (one permit per operation), implements deadlines (real timers plus a virtual
// "expire now") and Close.  The peer's end (peerConn) is not gated.
//
// Synchronisation is kept to what a real transport also has: one mutex per direction.  The gates
// are channel receives from the scheduler only (scheduler -> worker edges), and workers never
// signal the scheduler (it watches goroutine states through runtime.Stack), so the harness adds
// no happens-before edge between two goroutines that use the tls.Conn, beyond those of the
// per-direction buffers.

import (
	"errors"
	"io"
	"net"
	"os"
	"sync"
	"time"
)

// half is one direction of the pipe.
type half struct {
	mu      sync.Mutex
	cond    *sync.Cond
	buf     []byte
	wclosed bool // the writing end was closed: the reader sees EOF after the buffered data
	rclosed bool // the reading end was closed: the writer sees an error
	// read deadline of the reading end (only used for the gated end)
	rdExpired bool
	// record types of the writes that went through (first byte of every write), for observation
	wlog []byte
}

func newHalf() *half {
	h := &half{}
	h.cond = sync.NewCond(&h.mu)
	return h
}

var errPeerGone = errors.New("c34 transport: write to a connection closed by the peer")

func (h *half) write(p []byte) (int, error) {
	h.mu.Lock()
	defer h.mu.Unlock()
	if h.wclosed {
		return 0, io.ErrClosedPipe
	}
	if h.rclosed {
		return 0, errPeerGone
	}
	h.buf = append(h.buf, p...)
	if len(p) > 0 {
		h.wlog = append(h.wlog, p[0])
	}
	h.cond.Broadcast()
	return len(p), nil
}

// read blocks until data, EOF, local close (stop() true) or an expired read deadline.
func (h *half) read(p []byte, useDeadline bool) (int, error) {
	h.mu.Lock()
	defer h.mu.Unlock()
	for {
		if h.rclosed {
			return 0, io.ErrClosedPipe
		}
		if useDeadline && h.rdExpired {
			return 0, os.ErrDeadlineExceeded
		}
		if len(h.buf) > 0 {
			n := copy(p, h.buf)
			h.buf = h.buf[n:]
			return n, nil
		}
		if h.wclosed {
			return 0, io.EOF
		}
		h.cond.Wait()
	}
}

func (h *half) closeW() {
	h.mu.Lock()
	h.wclosed = true
	h.cond.Broadcast()
	h.mu.Unlock()
}

func (h *half) closeR() {
	h.mu.Lock()
	h.rclosed = true
	h.cond.Broadcast()
	h.mu.Unlock()
}

func (h *half) setRdExpired(v bool) {
	h.mu.Lock()
	h.rdExpired = v
	h.cond.Broadcast()
	h.mu.Unlock()
}

func (h *half) buffered() int {
	h.mu.Lock()
	defer h.mu.Unlock()
	return len(h.buf)
}

// deadline is one deadline of the gated end: armed when a non-zero time was set; expires when the
// time passes (real timer) or when the scheduler expires it virtually.
type deadline struct {
	mu      sync.Mutex
	gen     int
	armed   bool
	expired bool
	ch      chan struct{} // closed when expired
	timer   *time.Timer
	onFlip  func(expired bool)
}

func newDeadline(onFlip func(bool)) *deadline {
	return &deadline{ch: make(chan struct{}), onFlip: onFlip}
}

func (d *deadline) set(t time.Time) {
	d.mu.Lock()
	d.gen++
	gen := d.gen
	if d.timer != nil {
		d.timer.Stop()
		d.timer = nil
	}
	if d.expired {
		d.expired = false
		d.ch = make(chan struct{})
	}
	d.armed = !t.IsZero()
	fire := false
	if d.armed {
		if dur := time.Until(t); dur <= 0 {
			fire = true
		} else {
			d.timer = time.AfterFunc(dur, func() { d.fire(gen) })
		}
	}
	if fire {
		d.expired = true
		close(d.ch)
	}
	exp := d.expired
	d.mu.Unlock()
	if d.onFlip != nil {
		d.onFlip(exp)
	}
}

func (d *deadline) fire(gen int) {
	d.mu.Lock()
	if gen != d.gen || d.expired {
		d.mu.Unlock()
		return
	}
	d.expired = true
	close(d.ch)
	d.mu.Unlock()
	if d.onFlip != nil {
		d.onFlip(true)
	}
}

// expireNow: virtual time passes every armed deadline.
func (d *deadline) expireNow() {
	d.mu.Lock()
	if !d.armed || d.expired {
		d.mu.Unlock()
		return
	}
	d.expired = true
	close(d.ch)
	d.mu.Unlock()
	if d.onFlip != nil {
		d.onFlip(true)
	}
}

func (d *deadline) wait() <-chan struct{} {
	d.mu.Lock()
	defer d.mu.Unlock()
	return d.ch
}

func (d *deadline) isExpired() bool {
	d.mu.Lock()
	defer d.mu.Unlock()
	return d.expired
}

type addr string

func (a addr) Network() string { return "c34" }
func (a addr) String() string  { return string(a) }

// gateConn is the end of the pipe used by the connection under test.
type gateConn struct {
	in, out   *half // in: peer -> cut, out: cut -> peer
	permR     chan struct{}
	permW     chan struct{}
	free      chan struct{} // closed: every gate is open
	closed    chan struct{}
	closeOnce sync.Once
	rd, wr    *deadline
	// per goroutine permits (goroutine id -> channels): lets the scheduler release the transport
	// operation of one particular goroutine.  Filled by the scheduler before any call starts and
	// read-only afterwards.
	perG map[int64]*gperm
}

type gperm struct {
	r, w chan struct{}
}

func (g *gateConn) mine() *gperm {
	if p := g.perG[curGoid()]; p != nil {
		return p
	}
	return &gperm{} // nil channels: never ready
}

func newPipe() (*gateConn, *peerConn) {
	a, b := newHalf(), newHalf()
	g := &gateConn{in: a, out: b, permR: make(chan struct{}), permW: make(chan struct{}),
		free: make(chan struct{}), closed: make(chan struct{})}
	g.rd = newDeadline(func(exp bool) { g.in.setRdExpired(exp) })
	g.wr = newDeadline(nil)
	p := &peerConn{in: b, out: a}
	return g, p
}

// waitR / waitW: the gates.  Separate functions so that the scheduler can tell from a goroutine
// dump which gate a goroutine waits at.
//
//go:noinline
func (g *gateConn) waitR() error {
	select {
	case <-g.mine().r:
		return nil
	case <-g.permR:
		return nil
	case <-g.free:
		return nil
	case <-g.closed:
		return io.ErrClosedPipe
	case <-g.rd.wait():
		return os.ErrDeadlineExceeded
	}
}

//go:noinline
func (g *gateConn) waitW() error {
	select {
	case <-g.mine().w:
		return nil
	case <-g.permW:
		return nil
	case <-g.free:
		return nil
	case <-g.closed:
		return io.ErrClosedPipe
	case <-g.wr.wait():
		return os.ErrDeadlineExceeded
	}
}

func isClosed(ch <-chan struct{}) bool {
	select {
	case <-ch:
		return true
	default:
		return false
	}
}

func (g *gateConn) Read(p []byte) (int, error) {
	if isClosed(g.closed) {
		return 0, io.ErrClosedPipe
	}
	if g.rd.isExpired() {
		return 0, os.ErrDeadlineExceeded
	}
	if err := g.waitR(); err != nil {
		return 0, err
	}
	if isClosed(g.closed) {
		return 0, io.ErrClosedPipe
	}
	return g.in.read(p, true)
}

func (g *gateConn) Write(p []byte) (int, error) {
	if isClosed(g.closed) {
		return 0, io.ErrClosedPipe
	}
	if g.wr.isExpired() {
		return 0, os.ErrDeadlineExceeded
	}
	if err := g.waitW(); err != nil {
		return 0, err
	}
	if isClosed(g.closed) {
		return 0, io.ErrClosedPipe
	}
	if g.wr.isExpired() {
		return 0, os.ErrDeadlineExceeded
	}
	return g.out.write(p)
}

func (g *gateConn) Close() error {
	err := io.ErrClosedPipe
	g.closeOnce.Do(func() {
		close(g.closed)
		g.out.closeW()
		g.in.closeR()
		err = nil
	})
	return err
}

// netdown: the network goes away under the connection (both directions end after the data that
// is already buffered).  Not a Close of the gated end: operations see EOF / peer-gone errors.
func (g *gateConn) netdown() {
	g.in.closeW()
	g.out.closeW()
}

func (g *gateConn) expire() {
	g.rd.expireNow()
	g.wr.expireNow()
}

func (g *gateConn) openAll() {
	select {
	case <-g.free:
	default:
		close(g.free)
	}
}

func (g *gateConn) LocalAddr() net.Addr  { return addr("cut") }
func (g *gateConn) RemoteAddr() net.Addr { return addr("peer") }
func (g *gateConn) SetDeadline(t time.Time) error {
	if isClosed(g.closed) {
		return io.ErrClosedPipe
	}
	g.rd.set(t)
	g.wr.set(t)
	return nil
}
func (g *gateConn) SetReadDeadline(t time.Time) error {
	if isClosed(g.closed) {
		return io.ErrClosedPipe
	}
	g.rd.set(t)
	return nil
}
func (g *gateConn) SetWriteDeadline(t time.Time) error {
	if isClosed(g.closed) {
		return io.ErrClosedPipe
	}
	g.wr.set(t)
	return nil
}

// peerConn is the peer's end: not gated, deadlines are accepted and ignored (its writes never
// block because the buffers are unbounded).
type peerConn struct {
	in, out   *half
	closeOnce sync.Once
}

func (p *peerConn) Read(b []byte) (int, error)  { return p.in.read(b, false) }
func (p *peerConn) Write(b []byte) (int, error) { return p.out.write(b) }
func (p *peerConn) Close() error {
	p.closeOnce.Do(func() {
		p.out.closeW()
		p.in.closeR()
	})
	return nil
}
func (p *peerConn) LocalAddr() net.Addr                { return addr("peer") }
func (p *peerConn) RemoteAddr() net.Addr               { return addr("cut") }
func (p *peerConn) SetDeadline(t time.Time) error      { return nil }
func (p *peerConn) SetReadDeadline(t time.Time) error  { return nil }
func (p *peerConn) SetWriteDeadline(t time.Time) error { return nil }
