package main

// Self-identifying payloads.  The payload of write id w (1..127) is a sequence of 3-byte groups
//
//	0x80|w, (group>>7)&0x7f, group&0x7f
//
// so every byte of every payload identifies (w, offset): the tag byte is the only byte >= 0x80 of
// a group and fixes the alignment.  decodeRuns is the abstraction function from received bytes to
// the runs [w, off, n] that the specification talks about; bytes that fit no payload become a run
// with w = -1.

type Run struct {
	W   int `json:"w"`
	Off int `json:"off"`
	N   int `json:"n"`
}

func payload(w, n int) []byte {
	b := make([]byte, n)
	for i := range b {
		b[i] = patByte(w, i)
	}
	return b
}

func patByte(w, i int) byte {
	g := i / 3
	switch i % 3 {
	case 0:
		return 0x80 | byte(w)
	case 1:
		return byte((g >> 7) & 0x7f)
	default:
		return byte(g & 0x7f)
	}
}

// decodeRuns: nil, false if the chunk cannot be aligned (no tag byte, or shorter than 5 bytes
// with no complete group).
//
// The first tag byte fixes the alignment of the 3-byte groups.  A group that lies completely
// inside the chunk identifies itself; a group cut by the border of the chunk takes the missing
// part from its neighbour (same write, group number +-1) - a chunk is the plaintext of one
// record, i.e. a contiguous piece of one payload, and every payload length is a multiple of 3.
// Every byte is then checked against the pattern; a byte that does not fit becomes w = -1.
func decodeRuns(b []byte) ([]Run, bool) {
	if len(b) == 0 {
		return nil, true
	}
	p0 := -1
	for i, v := range b {
		if v >= 0x80 {
			p0 = i
			break
		}
	}
	if p0 < 0 {
		return nil, false
	}
	first := p0 % 3 // index of the first tag position (may be cut: first-3 < 0)
	if first > 0 {
		first -= 3
	}
	type grp struct {
		w, g       int
		hasW, hasG bool
	}
	ng := (len(b) - first + 2) / 3
	gs := make([]grp, ng)
	for k := 0; k < ng; k++ {
		t := first + 3*k
		if t >= 0 && t < len(b) && b[t] >= 0x80 {
			gs[k].w, gs[k].hasW = int(b[t]&0x7f), true
		}
		if t+1 >= 0 && t+2 < len(b) && b[t+1] < 0x80 && b[t+2] < 0x80 {
			gs[k].g, gs[k].hasG = int(b[t+1])<<7|int(b[t+2]), true
		}
	}
	// complete the border groups from their neighbours
	for k := 0; k < ng; k++ {
		t := first + 3*k
		border := t < 0 || t+2 >= len(b)
		if !border {
			continue
		}
		if !gs[k].hasW {
			if k+1 < ng && gs[k+1].hasW {
				gs[k].w, gs[k].hasW = gs[k+1].w, true
			} else if k > 0 && gs[k-1].hasW {
				gs[k].w, gs[k].hasW = gs[k-1].w, true
			}
		}
		if !gs[k].hasG {
			if k > 0 && gs[k-1].hasG {
				gs[k].g, gs[k].hasG = gs[k-1].g+1, true
			} else if k+1 < ng && gs[k+1].hasG && gs[k+1].g > 0 {
				gs[k].g, gs[k].hasG = gs[k+1].g-1, true
			} else if ng == 1 && len(b) == 1 {
				// a lone tag byte (first record of the TLS 1.0 1/n-1 split): the start of a payload
				gs[k].g, gs[k].hasG = 0, true
			}
		}
	}
	var runs []Run
	add := func(w, off int) {
		if n := len(runs); n > 0 && runs[n-1].W == w && (w < 0 || runs[n-1].Off+runs[n-1].N == off) {
			runs[n-1].N++
			return
		}
		runs = append(runs, Run{W: w, Off: off, N: 1})
	}
	for k := range gs {
		t := first + 3*k
		if border := t < 0 || t+2 >= len(b); border && (!gs[k].hasW || !gs[k].hasG) {
			return nil, false // too short to identify the cut group (chunks of >= 5 bytes never are)
		}
	}
	for q := range b {
		k := (q - first) / 3
		pos := (q - first) % 3
		if !gs[k].hasW || !gs[k].hasG || patByte(gs[k].w, gs[k].g*3+pos) != b[q] {
			add(-1, q)
			continue
		}
		add(gs[k].w, gs[k].g*3+pos)
	}
	return runs, true
}
