package main

// Scheduler: drives one schedule (a TLC behaviour of TLSConnImpl projected to its controllable
// events, or a seeded random one) against a real tls.Conn.
//
// The scheduler never synchronises with the goroutines that use the connection except by
// sending them commands/permits; it learns their state from runtime.Stack (goroutine wait
// states and frames).  That keeps the Go race detector's happens-before relation between the
// goroutines under test free of harness edges.

import (
	"bytes"
	"context"
	"errors"
	"fmt"
	"io"
	"math/rand"
	"net"
	"os"
	"regexp"
	"runtime"
	"sort"
	"strconv"
	"strings"
	"sync"
	"time"

	"github.com/zmap/zcrypto/tls"
)

type SEvent struct {
	T string `json:"t"`           // s (start next call of g), w / r (permit a transport write / read), ps, pc, x
	G int    `json:"g,omitempty"` // goroutine (1-based)
	K string `json:"k,omitempty"` // ps: kind d1 | d2
	M string `json:"m,omitempty"` // pc: cn | abort
}

type Schedule struct {
	ID    int        `json:"id"`
	Progs [][]string `json:"progs"`
	Ev    []SEvent   `json:"ev"`
	Ver   string     `json:"ver"`  // "1.2" | "1.3" | "1.0"
	Side  string     `json:"side"` // "client" | "server": which end is the connection under test
	Mode  string     `json:"mode"` // "strict" | "loose" | "free" (every gate open from the start: stress)
	Seed  int64      `json:"seed"`
	// options
	Reneg   bool `json:"reneg"`   // client Config.Renegotiation = RenegotiateFreelyAsClient (TLS <= 1.2)
	NoDRS   bool `json:"nodrs"`   // DynamicRecordSizingDisabled (Write2 = exactly two records)
	Tickets bool `json:"tickets"` // session tickets on (TLS 1.3: post-handshake messages on the read path)
	RdBuf   int  `json:"rdbuf"`   // Read buffer of the goroutines under test (multiple of 3)
}

type Event map[string]any

type glog struct {
	mu sync.Mutex
	ev []Event
}

func (l *glog) add(t0 time.Time, e Event) {
	e["ts"] = time.Since(t0).Nanoseconds()
	l.mu.Lock()
	l.ev = append(l.ev, e)
	l.mu.Unlock()
}

type worker struct {
	g      int
	prog   []string
	cmd    chan struct{}
	log    glog
	goid   int64
	done   chan struct{}
	ctx    context.Context
	cancel context.CancelFunc
	// progress (written by the worker, read by the scheduler only after done or for the stuck report)
	pmu     sync.Mutex
	started int
	ended   int
}

const (
	smallLen = 6
	bigLen   = 16384 + 101 // more than one maximal record, multiple of 3
)

func writeID(g, k int) int  { return g*16 + k } // g 1..6, k 1..15 -> 17..111
func peerWriteID(k int) int { return 112 + k }  // k 1..15

func classify(err error) string {
	if err == nil {
		return "ok"
	}
	var ne net.Error
	switch {
	case errors.Is(err, io.EOF):
		return "eof"
	case errors.Is(err, net.ErrClosed):
		return "closed"
	case errors.Is(err, os.ErrDeadlineExceeded):
		return "timeout"
	case errors.As(err, &ne) && ne.Timeout():
		return "timeout"
	case strings.Contains(err.Error(), "protocol is shutdown"):
		return "shutdown"
	case strings.Contains(err.Error(), "CloseWrite called before handshake"):
		return "early"
	case errors.Is(err, io.ErrClosedPipe), strings.Contains(err.Error(), "closed pipe"):
		return "netclosed"
	default:
		return "err"
	}
}

func curGoid() int64 {
	var buf [64]byte
	n := runtime.Stack(buf[:], false)
	f := strings.Fields(string(buf[:n]))
	id, _ := strconv.ParseInt(f[1], 10, 64)
	return id
}

type run struct {
	s       Schedule
	t0      time.Time
	cut     *tls.Conn
	peer    *tls.Conn
	gate    *gateConn
	pc      *peerConn
	workers []*worker
	rng     *rand.Rand

	peerLog   glog
	peerCmd   chan SEvent
	peerWDone chan struct{}
	peerRDone chan struct{}
	schedLog  glog

	skipped int
	applied int

	progFree chan struct{} // closed at the end of the schedule: the remaining calls start by themselves
	stop     chan struct{} // closed by the scheduler at the end of the schedule (ends the *Loop calls)
	seenAt   map[int64]int // scheduler only: order in which goroutines were first seen at the write gate
	seenN    int
}

func (r *run) doCall(w *worker, k int, call string) {
	t0 := r.t0
	switch call {
	case "Read":
		w.log.add(t0, Event{"ev": "cs", "g": w.g, "k": k, "call": call})
		buf := make([]byte, r.s.RdBuf)
		n, err := r.cut.Read(buf)
		runs, ok := decodeRuns(buf[:n])
		e := Event{"ev": "ce", "g": w.g, "k": k, "call": call, "cls": classify(err), "n": n, "runs": runsOrEmpty(runs)}
		if !ok {
			e["short"] = true
		}
		w.log.add(t0, e)
	case "Write", "Write2":
		ln := smallLen
		if call == "Write2" {
			ln = bigLen
		}
		id := writeID(w.g, k)
		p := payload(id, ln)
		w.log.add(t0, Event{"ev": "cs", "g": w.g, "k": k, "call": call, "w": id, "len": ln, "loop": false})
		n, err := r.cut.Write(p)
		w.log.add(t0, Event{"ev": "ce", "g": w.g, "k": k, "call": call, "cls": classify(err), "n": n, "w": id})
	case "Handshake":
		w.log.add(t0, Event{"ev": "cs", "g": w.g, "k": k, "call": call})
		err := r.cut.Handshake()
		w.log.add(t0, Event{"ev": "ce", "g": w.g, "k": k, "call": call, "cls": classify(err)})
	case "HandshakeCtx":
		w.log.add(t0, Event{"ev": "cs", "g": w.g, "k": k, "call": call})
		// the context was made by the scheduler before the run (no worker -> scheduler edge); it is
		// cancelled by an "x" event (virtual time) or at the end of the schedule
		err := r.cut.HandshakeContext(w.ctx)
		w.log.add(t0, Event{"ev": "ce", "g": w.g, "k": k, "call": call, "cls": classify(err)})
	case "ConnState":
		w.log.add(t0, Event{"ev": "cs", "g": w.g, "k": k, "call": call})
		st := r.cut.ConnectionState()
		w.log.add(t0, Event{"ev": "ce", "g": w.g, "k": k, "call": call, "cls": "ok", "hc": st.HandshakeComplete, "ver": int(st.Version)})
	case "ConnStateLoop":
		// polls ConnectionState until the schedule ends: keeps handshakeMutex busy (stress schedules)
		w.log.add(t0, Event{"ev": "cs", "g": w.g, "k": k, "call": call})
		n := 0
	pollLoop:
		for ; n < 2000000; n++ {
			select {
			case <-r.stop:
				break pollLoop
			default:
			}
			_ = r.cut.ConnectionState()
		}
		w.log.add(t0, Event{"ev": "ce", "g": w.g, "k": k, "call": call, "cls": "ok", "n": n})
	case "WriteLoop":
		// one payload handed to the connection in 3-byte Writes until the schedule ends or a Write
		// fails: for the specification it is one Write of the whole payload that succeeded only if
		// every piece did (every piece goes through Handshake() and takes c.out)
		const pieces = 60
		id := writeID(w.g, k)
		p := payload(id, 3*pieces)
		w.log.add(t0, Event{"ev": "cs", "g": w.g, "k": k, "call": "Write", "w": id, "len": len(p), "loop": true})
		total := 0
		var err error
		stopped := false
	writeLoop:
		for i := 0; i < pieces; i++ {
			select {
			case <-r.stop:
				stopped = true
				break writeLoop
			default:
			}
			var n int
			n, err = r.cut.Write(p[3*i : 3*i+3])
			total += n
			if err != nil {
				break
			}
		}
		cls := classify(err)
		if stopped && err == nil {
			cls = "stopped"
		}
		w.log.add(t0, Event{"ev": "ce", "g": w.g, "k": k, "call": "Write", "cls": cls, "n": total, "w": id})
	case "VerifyHostname":
		// takes handshakeMutex like ConnectionState (conn.go VerifyHostname)
		w.log.add(t0, Event{"ev": "cs", "g": w.g, "k": k, "call": call})
		err := r.cut.VerifyHostname("c34.test")
		cls := "ok"
		if err != nil {
			cls = "err"
		}
		w.log.add(t0, Event{"ev": "ce", "g": w.g, "k": k, "call": call, "cls": cls})
	case "OCSPResponse":
		w.log.add(t0, Event{"ev": "cs", "g": w.g, "k": k, "call": call})
		_ = r.cut.OCSPResponse()
		w.log.add(t0, Event{"ev": "ce", "g": w.g, "k": k, "call": call, "cls": "ok"})
	case "SetReadDeadline":
		w.log.add(t0, Event{"ev": "cs", "g": w.g, "k": k, "call": call})
		err := r.cut.SetReadDeadline(time.Now().Add(time.Hour))
		w.log.add(t0, Event{"ev": "ce", "g": w.g, "k": k, "call": call, "cls": classify(err)})
	case "SetWriteDeadline":
		w.log.add(t0, Event{"ev": "cs", "g": w.g, "k": k, "call": call})
		err := r.cut.SetWriteDeadline(time.Now().Add(time.Hour))
		w.log.add(t0, Event{"ev": "ce", "g": w.g, "k": k, "call": call, "cls": classify(err)})
	case "SetDeadline":
		w.log.add(t0, Event{"ev": "cs", "g": w.g, "k": k, "call": call})
		err := r.cut.SetDeadline(time.Now().Add(time.Hour))
		w.log.add(t0, Event{"ev": "ce", "g": w.g, "k": k, "call": call, "cls": classify(err)})
	case "CloseWrite":
		w.log.add(t0, Event{"ev": "cs", "g": w.g, "k": k, "call": call})
		err := r.cut.CloseWrite()
		w.log.add(t0, Event{"ev": "ce", "g": w.g, "k": k, "call": call, "cls": classify(err)})
	case "Close":
		w.log.add(t0, Event{"ev": "cs", "g": w.g, "k": k, "call": call})
		err := r.cut.Close()
		w.log.add(t0, Event{"ev": "ce", "g": w.g, "k": k, "call": call, "cls": classify(err)})
	default:
		fatal("unknown call %q", call)
	}
}

func runsOrEmpty(r []Run) []Run {
	if r == nil {
		return []Run{}
	}
	return r
}

//go:noinline
func (w *worker) idleWait(free <-chan struct{}) {
	select {
	case <-w.cmd:
	case <-free:
	}
}

func (r *run) workerLoop(w *worker, ready *sync.WaitGroup) {
	w.goid = curGoid()
	ready.Done()
	defer close(w.done)
	for i, call := range w.prog {
		if i == 0 || r.s.Mode != "free" {
			// free (stress) mode: only the first call waits for its start event
			w.idleWait(r.progFree)
		}
		if r.s.Mode == "loose" {
			// seeded jitter before the call (per worker rng derived from the schedule seed)
			d := time.Duration((r.s.Seed*31+int64(w.g)*17+int64(i)*7)%5) * 50 * time.Microsecond
			if d > 0 {
				time.Sleep(d)
			}
		}
		w.pmu.Lock()
		w.started = i + 1
		w.pmu.Unlock()
		r.doCall(w, i+1, call)
		w.pmu.Lock()
		w.ended = i + 1
		w.pmu.Unlock()
	}
}

// ---------------------------------------------------------------- goroutine states

type gstate struct {
	id      int64
	state   string
	waiting bool
	atR     bool // at the read gate
	atW     bool // at the write gate
	idle    bool // worker waiting for its next command
	inHS    bool // inside the TLS handshake
	inNet   bool // inside the transport's blocking read (has a permit, waits for data)
	mutex   bool
}

var hdrRe = regexp.MustCompile(`^goroutine (\d+) \[([^\],]+)`)
var hsRe = regexp.MustCompile(`tls\.\(\*Conn\)\.(clientHandshake|serverHandshake)\b`)

var waitingStates = map[string]bool{
	"chan receive": true, "chan send": true, "select": true, "sync.Mutex.Lock": true,
	"sync.RWMutex.Lock": true, "sync.RWMutex.RLock": true, "sync.Cond.Wait": true, "semacquire": true,
	"sync.WaitGroup.Wait": true, "IO wait": true, "chan receive (nil chan)": true, "select (no cases)": true,
	"finalizer wait": true, "GC sweep wait": true, "GC scavenge wait": true, "GC worker (idle)": true,
	"force gc (idle)": true, "debug call": false, "cleanup wait": true,
}

var stackBuf = make([]byte, 1<<20)

func dumpStates() map[int64]*gstate {
	for {
		n := runtime.Stack(stackBuf, true)
		if n < len(stackBuf) {
			return parseDump(stackBuf[:n])
		}
		stackBuf = make([]byte, 2*len(stackBuf))
	}
}

func parseDump(b []byte) map[int64]*gstate {
	res := map[int64]*gstate{}
	for _, blk := range bytes.Split(b, []byte("\n\n")) {
		lines := strings.Split(string(blk), "\n")
		if len(lines) == 0 {
			continue
		}
		m := hdrRe.FindStringSubmatch(lines[0])
		if m == nil {
			continue
		}
		id, _ := strconv.ParseInt(m[1], 10, 64)
		g := &gstate{id: id, state: m[2]}
		g.waiting = waitingStates[g.state]
		g.mutex = strings.HasPrefix(g.state, "sync.Mutex") || g.state == "semacquire"
		body := string(blk)
		if g.waiting {
			g.atR = strings.Contains(body, "(*gateConn).waitR")
			g.atW = strings.Contains(body, "(*gateConn).waitW")
			g.idle = strings.Contains(body, "(*worker).idleWait")
			g.inNet = strings.Contains(body, "(*half).read")
		}
		g.inHS = hsRe.MatchString(body)
		res[id] = g
	}
	return res
}

// noteWriters remembers the order in which goroutines arrived at the write gate.
func (r *run) noteWriters(st map[int64]*gstate) {
	var ids []int64
	for id, g := range st {
		if g.atW {
			if _, ok := r.seenAt[id]; !ok {
				ids = append(ids, id)
			}
		} else {
			delete(r.seenAt, id)
		}
	}
	sort.Slice(ids, func(i, j int) bool { return ids[i] < ids[j] })
	for _, id := range ids {
		r.seenN++
		r.seenAt[id] = r.seenN
	}
}

// settle waits until every goroutine except the caller is in a waiting state.
func (r *run) settle() map[int64]*gstate {
	me := curGoid()
	deadline := time.Now().Add(20 * time.Second)
	for i := 0; ; i++ {
		st := dumpStates()
		busy := false
		for id, g := range st {
			if id == me {
				continue
			}
			if !g.waiting {
				busy = true
				break
			}
		}
		if !busy {
			r.noteWriters(st)
			return st
		}
		if time.Now().After(deadline) {
			var sb strings.Builder
			for id, g := range st {
				if id != me && !g.waiting {
					fmt.Fprintf(&sb, " g%d[%s]", id, g.state)
				}
			}
			fatal("schedule %d: goroutines did not settle within 20 s:%s", r.s.ID, sb.String())
		}
		if i < 50 {
			runtime.Gosched()
		} else {
			time.Sleep(50 * time.Microsecond)
		}
	}
}

func (r *run) workerState(st map[int64]*gstate, g int) *gstate {
	if g < 1 || g > len(r.workers) {
		return nil
	}
	return st[r.workers[g-1].goid]
}

// permit: hand one permit to the gate if somebody waits there.  The send cannot block for long
// because a waiter was seen; a lost race (the waiter left through close/expiry) is a skip.
func permit(ch chan struct{}) bool {
	select {
	case ch <- struct{}{}:
		return true
	case <-time.After(2 * time.Second):
		return false
	}
}

func anyAt(st map[int64]*gstate, rd bool) *gstate {
	for _, g := range st {
		if rd && g.atR || !rd && g.atW {
			return g
		}
	}
	return nil
}

// permitOp releases one transport operation: the one of goroutine tg if it waits at that gate,
// otherwise whoever waits there.  Inside the handshake a whole flight is released (the model has one
// action per flight).  The B model says that at most one goroutine is inside a transport write at
// any time (c.out); if the dump shows several goroutines at the write gate, that is logged ("dblw")
// and the scheduler releases a goroutine other than the target first.
func (r *run) permitOp(stp *map[int64]*gstate, rd bool, tg int) bool {
	st := *stp
	var at []*gstate
	for _, g := range st {
		if rd && g.atR || !rd && g.atW {
			at = append(at, g)
		}
	}
	if len(at) == 0 {
		return false
	}
	sort.Slice(at, func(i, j int) bool { return at[i].id < at[j].id })
	var target *gstate
	if ws := r.workerState(st, tg); ws != nil && (rd && ws.atR || !rd && ws.atW) {
		target = ws
	}
	pick := target
	if !rd {
		r.noteWriters(st)
		if len(at) > 1 {
			// impossible in the B model: release the goroutine that arrived last
			r.schedLog.add(r.t0, Event{"ev": "dblw", "n": len(at)})
			pick = at[0]
			for _, g := range at {
				if r.seenAt[g.id] > r.seenAt[pick.id] {
					pick = g
				}
			}
		}
	}
	if pick == nil {
		pick = at[0]
	}
	ch := r.gate.permW
	if rd {
		ch = r.gate.permR
	}
	if p := r.gate.perG[pick.id]; p != nil {
		if rd {
			ch = p.r
		} else {
			ch = p.w
		}
	}
	ok := permit(ch)
	if !rd {
		delete(r.seenAt, pick.id)
	}
	// a handshake flight: keep permitting the same direction while the goroutine is inside the
	// handshake and comes back to the same gate
	for n := 0; ok && pick.inHS && n < 64; n++ {
		st = r.settle()
		*stp = st
		g2 := st[pick.id]
		if g2 == nil || !g2.inHS || !(rd && g2.atR || !rd && g2.atW) {
			break
		}
		if !permit(ch) {
			break
		}
	}
	return ok
}

// ---------------------------------------------------------------- peer

func (r *run) peerMain(ready *sync.WaitGroup) {
	ready.Done()
	defer close(r.peerRDone)
	err := r.peer.Handshake()
	r.peerLog.add(r.t0, Event{"ev": "phs", "cls": classify(err)})
	if err != nil {
		// no application phase; still consume commands
		go r.peerWriter(false)
		return
	}
	go r.peerWriter(true)
	buf := make([]byte, 1<<16)
	for {
		n, err := r.peer.Read(buf)
		if n > 0 {
			runs, ok := decodeRuns(buf[:n])
			e := Event{"ev": "pr", "n": n, "runs": runsOrEmpty(runs)}
			if !ok {
				e["short"] = true
			}
			r.peerLog.add(r.t0, e)
		}
		if err != nil {
			r.peerLog.add(r.t0, Event{"ev": "preof", "cls": classify(err)})
			return
		}
	}
}

// injectBadRecord puts a record that fails authentication on the wire towards the connection under
// test: a well-formed application-data header followed by bytes that no key produced (what an on-path
// attacker or a flipped bit gives).  It bypasses the peer's TLS layer, whose own state stays intact.
func (r *run) injectBadRecord(wl *glog) {
	vers := versionOf(r.s.Ver)
	if vers == tls.VersionTLS13 {
		vers = tls.VersionTLS12 // frozen record version
	}
	rec := []byte{23, byte(vers >> 8), byte(vers), 0, 40}
	for i := 0; i < 40; i++ {
		rec = append(rec, byte(0xa5^i*7))
	}
	wl.add(r.t0, Event{"ev": "pbad"})
	r.pc.out.write(rec)
}

func (r *run) peerWriter(hsOK bool) {
	defer close(r.peerWDone)
	k := 0
	var wl glog
	defer func() {
		r.peerLog.mu.Lock()
		r.peerLog.ev = append(r.peerLog.ev, wl.ev...)
		r.peerLog.mu.Unlock()
	}()
	for c := range r.peerCmd {
		switch c.T {
		case "ps":
			if !hsOK {
				continue
			}
			if c.K == "ku" || c.K == "kun" {
				err := tls.VerifConnSendKeyUpdate(r.peer, c.K == "ku")
				wl.add(r.t0, Event{"ev": "pku", "req": c.K == "ku", "cls": classify(err)})
				continue
			}
			if c.K == "bad" {
				r.injectBadRecord(&wl)
				continue
			}
			if c.K == "hr" {
				wl.add(r.t0, Event{"ev": "phr"})
				err := tls.VerifConnSendHelloRequest(r.peer)
				wl.add(r.t0, Event{"ev": "phre", "cls": classify(err)})
				continue
			}
			if c.K == "hs" || k >= 15 {
				continue // post-handshake tickets arrive by themselves (TLS 1.3)
			}
			k++
			ln := 6
			if c.K == "d2" {
				ln = 12
			}
			if r.s.RdBuf > 6 && c.K == "d2" {
				ln = 2 * r.s.RdBuf
			} else if r.s.RdBuf > 6 {
				ln = r.s.RdBuf
			}
			id := peerWriteID(k)
			wl.add(r.t0, Event{"ev": "pw", "w": id, "len": ln, "k": k})
			_, err := r.peer.Write(payload(id, ln))
			wl.add(r.t0, Event{"ev": "pwe", "w": id, "cls": classify(err)})
		case "bad":
			if !hsOK {
				continue
			}
			r.injectBadRecord(&wl)
		case "ku", "kun":
			if !hsOK {
				continue
			}
			err := tls.VerifConnSendKeyUpdate(r.peer, c.T == "ku")
			wl.add(r.t0, Event{"ev": "pku", "req": c.T == "ku", "cls": classify(err)})
		case "hr":
			if !hsOK {
				continue
			}
			// the zcrypto server refuses the renegotiation ClientHello with a fatal alert: from here
			// on the peer may stop reading ("phr" is treated like a close by the peer)
			wl.add(r.t0, Event{"ev": "phr"})
			err := tls.VerifConnSendHelloRequest(r.peer)
			wl.add(r.t0, Event{"ev": "phre", "cls": classify(err)})
		case "pc":
			wl.add(r.t0, Event{"ev": "pclose", "m": c.M})
			if c.M == "cn" {
				r.peer.Close()
			} else {
				r.pc.Close()
			}
		}
	}
}

// ---------------------------------------------------------------- one schedule

var certOnce sync.Once
var serverCert tls.Certificate

func versionOf(s string) uint16 {
	switch s {
	case "1.0":
		return tls.VersionTLS10
	case "1.1":
		return tls.VersionTLS11
	case "1.3":
		return tls.VersionTLS13
	default:
		return tls.VersionTLS12
	}
}

func runSchedule(s Schedule, watchdog time.Duration) (events []Event, stuck bool) {
	if s.RdBuf == 0 {
		s.RdBuf = 6
	}
	if s.Ver == "" {
		s.Ver = "1.2"
	}
	if s.Side == "" {
		s.Side = "client"
	}
	if s.Mode == "" {
		s.Mode = "strict"
	}
	certOnce.Do(func() { serverCert = makeCert() })
	r := &run{s: s, t0: time.Now(), rng: rand.New(rand.NewSource(s.Seed)), stop: make(chan struct{}), progFree: make(chan struct{}),
		seenAt: map[int64]int{}}
	r.gate, r.pc = newPipe()
	v := versionOf(s.Ver)
	ccfg := &tls.Config{InsecureSkipVerify: true, MinVersion: v, MaxVersion: v,
		DynamicRecordSizingDisabled: s.NoDRS, SessionTicketsDisabled: !s.Tickets}
	if s.Reneg {
		ccfg.Renegotiation = tls.RenegotiateFreelyAsClient
	}
	if s.Tickets {
		ccfg.ClientSessionCache = tls.NewLRUClientSessionCache(4)
	}
	if s.Ver == "1.0" {
		// a block cipher so that the 1/n-1 record split of Write is exercised
		ccfg.CipherSuites = []uint16{tls.TLS_ECDHE_ECDSA_WITH_AES_128_CBC_SHA}
	}
	scfg := &tls.Config{Certificates: []tls.Certificate{serverCert}, MinVersion: v, MaxVersion: v,
		DynamicRecordSizingDisabled: s.NoDRS, SessionTicketsDisabled: !s.Tickets}
	if s.Ver == "1.0" {
		scfg.CipherSuites = ccfg.CipherSuites
	}
	if s.Side == "client" {
		r.cut = tls.Client(r.gate, ccfg)
		r.peer = tls.Server(r.pc, scfg)
	} else {
		r.cut = tls.Server(r.gate, scfg)
		r.peer = tls.Client(r.pc, ccfg)
	}
	r.peerCmd = make(chan SEvent, 64)
	r.peerWDone = make(chan struct{})
	r.peerRDone = make(chan struct{})

	var ready sync.WaitGroup
	for i, p := range s.Progs {
		w := &worker{g: i + 1, prog: p, cmd: make(chan struct{}), done: make(chan struct{})}
		w.ctx, w.cancel = context.WithCancel(context.Background())
		r.workers = append(r.workers, w)
		ready.Add(1)
		go r.workerLoop(w, &ready)
	}
	ready.Add(1)
	go r.peerMain(&ready)
	ready.Wait()
	r.gate.perG = map[int64]*gperm{}
	for _, w := range r.workers {
		r.gate.perG[w.goid] = &gperm{r: make(chan struct{}), w: make(chan struct{})}
	}
	if s.Mode == "free" {
		r.gate.openAll()
	}
	r.schedLog.add(r.t0, Event{"ev": "reset", "id": s.ID, "side": s.Side, "ver": s.Ver, "mode": s.Mode})
	st := r.settle()

	strict := s.Mode == "strict"
	for _, e := range s.Ev {
		ok := false
		switch e.T {
		case "s":
			if ws := r.workerState(st, e.G); ws != nil && ws.idle {
				ok = permit(r.workers[e.G-1].cmd)
			}
		case "w", "r":
			ok = r.permitOp(&st, e.T == "r", e.G)
		case "ps", "pc", "ku", "kun", "hr", "bad":
			r.peerCmd <- e
			ok = true
		case "x":
			r.gate.expire()
			for _, w := range r.workers {
				w.cancel()
			}
			r.schedLog.add(r.t0, Event{"ev": "expire"})
			ok = true
		default:
			fatal("unknown schedule event %q", e.T)
		}
		if ok {
			r.applied++
		} else {
			r.skipped++
		}
		if s.Mode == "free" {
			if d := r.rng.Intn(4); d > 0 {
				time.Sleep(time.Duration(d*d) * 40 * time.Microsecond)
			}
			st = dumpStates()
		} else if strict || e.T != "s" {
			st = r.settle()
		} else if r.rng.Intn(3) == 0 {
			time.Sleep(time.Duration(r.rng.Intn(200)) * time.Microsecond)
			st = dumpStates()
		} else {
			st = dumpStates()
		}
	}

	// completion phase (gated modes): the operations that are in flight when the schedule ends are
	// released one at a time - writes first, then reads (a Read for which no data is there simply
	// waits for the end) - so that what the schedule set up plays out before the transport is taken
	// away.  (The scheduler does not look into the buffers: that would synchronise it with the workers.)
	if s.Mode != "free" {
		for round := 0; round < 12; round++ {
			st = r.settle()
			if anyAt(st, false) != nil {
				if !r.permitOp(&st, false, 0) {
					break
				}
				continue
			}
			if anyAt(st, true) != nil && round < 6 {
				if !r.permitOp(&st, true, 0) {
					break
				}
				continue
			}
			break
		}
	}
	// end of the schedule: the transport goes down in both directions, every deadline expires,
	// every gate opens; the remaining calls of the programs run freely.
	close(r.stop)
	r.settle()
	r.gate.expire()
	for _, w := range r.workers {
		w.cancel()
	}
	r.gate.netdown()
	r.schedLog.add(r.t0, Event{"ev": "down"})
	r.gate.openAll()
	close(r.progFree)
	limit := time.After(watchdog)
	var stuckCalls [][2]int
	for _, w := range r.workers {
		select {
		case <-w.done:
		case <-limit:
			stuck = true
			limit = time.After(0)
		}
	}
	if stuck {
		stuck = false
		for _, w := range r.workers {
			select {
			case <-w.done:
			default:
				w.pmu.Lock()
				if w.started > w.ended {
					stuckCalls = append(stuckCalls, [2]int{w.g, w.started})
					stuck = true
				}
				w.pmu.Unlock()
			}
		}
		dump := dumpStates()
		var where []string
		for _, w := range r.workers {
			if g := dump[w.goid]; g != nil {
				where = append(where, fmt.Sprintf("g%d:%s", w.g, g.state))
			}
		}
		fmt.Fprintf(os.Stderr, "STUCK schedule %d: %v %v\n", s.ID, stuckCalls, where)
	}
	close(r.peerCmd)
	peerDone := true
	select {
	case <-r.peerRDone:
	case <-time.After(watchdog):
		peerDone = false
	}
	select {
	case <-r.peerWDone:
	case <-time.After(watchdog):
		peerDone = false
	}
	r.pc.Close()
	r.gate.Close()

	// merge the logs by time
	var all []Event
	all = append(all, r.schedLog.ev...)
	for _, w := range r.workers {
		w.log.mu.Lock()
		all = append(all, w.log.ev...)
		w.log.mu.Unlock()
	}
	r.peerLog.mu.Lock()
	all = append(all, r.peerLog.ev...)
	r.peerLog.mu.Unlock()
	sort.SliceStable(all, func(i, j int) bool { return all[i]["ts"].(int64) < all[j]["ts"].(int64) })
	if stuckCalls == nil {
		stuckCalls = [][2]int{}
	}
	all = append(all, Event{"ev": "final", "stuck": stuckCalls, "peerdone": peerDone,
		"applied": r.applied, "skipped": r.skipped, "ts": time.Since(r.t0).Nanoseconds()})
	return all, stuck
}
