// c34: conformance harness binding TLSConn.tla / TLSConnImpl.tla to the real tls.Conn.
//
//	c34 run <schedules.ndjson> <events.ndjson> [first]   drive schedules (from index first) against a
//	                                                     real connection pair, log call/peer events
//	c34 replay <replay.json>                             re-run the schedule of a replay file; exit 1 if
//	                                                     a call is stuck again (deadlock observation)
//	c34 selftest                                         payload pattern / abstraction function self test
//
// The harness decides nothing about the property: the events go to Trace_TLSConn.tla (TLC), race
// reports of the Go race detector are parsed by the driver, a stuck call is reported as such.
package main

import (
	"crypto/ecdsa"
	"crypto/elliptic"
	"crypto/rand"
	stdx509 "crypto/x509"
	"crypto/x509/pkix"
	"encoding/json"
	"fmt"
	"math/big"
	mrand "math/rand"
	"os"
	"strconv"
	"time"

	"github.com/zmap/zcrypto/tls"
	"verifharness/lib/obs"
)

func fatal(format string, a ...any) { obs.Fatal(format, a...) }

func makeCert() tls.Certificate {
	key, err := ecdsa.GenerateKey(elliptic.P256(), rand.Reader)
	if err != nil {
		fatal("key: %v", err)
	}
	tmpl := &stdx509.Certificate{
		SerialNumber: big.NewInt(34), Subject: pkix.Name{CommonName: "c34.test"},
		NotBefore: time.Now().Add(-time.Hour), NotAfter: time.Now().Add(24 * time.Hour),
		KeyUsage: stdx509.KeyUsageDigitalSignature, ExtKeyUsage: []stdx509.ExtKeyUsage{stdx509.ExtKeyUsageServerAuth},
		DNSNames: []string{"c34.test"}, BasicConstraintsValid: true,
	}
	der, err := stdx509.CreateCertificate(rand.Reader, tmpl, tmpl, &key.PublicKey, key)
	if err != nil {
		fatal("cert: %v", err)
	}
	return tls.Certificate{Certificate: [][]byte{der}, PrivateKey: key}
}

const watchdog = 20 * time.Second

func main() {
	if len(os.Args) < 2 {
		fatal("usage: c34 run|replay|selftest ...")
	}
	switch os.Args[1] {
	case "run":
		if len(os.Args) < 4 {
			fatal("usage: c34 run <schedules.ndjson> <events.ndjson> [first]")
		}
		first := 0
		if len(os.Args) > 4 {
			first, _ = strconv.Atoi(os.Args[4])
		}
		var scheds []Schedule
		err := obs.ReadLines(os.Args[2], func(line []byte) error {
			var s Schedule
			if err := json.Unmarshal(line, &s); err != nil {
				return err
			}
			scheds = append(scheds, s)
			return nil
		})
		if err != nil {
			fatal("%v", err)
		}
		warmUp()
		w := obs.NewWriter(os.Args[3])
		n, applied, skipped, calls := 0, 0, 0, 0
		stoppedAt := -1
		hsOK := 0
		for i := first; i < len(scheds); i++ {
			fmt.Fprintf(os.Stderr, "SCHED %d\n", scheds[i].ID)
			ev, stuck := runSchedule(scheds[i], watchdog)
			for _, e := range ev {
				w.Write(e)
				switch e["ev"] {
				case "final":
					applied += e["applied"].(int)
					skipped += e["skipped"].(int)
				case "ce":
					calls++
				case "phs":
					if e["cls"] == "ok" {
						hsOK++
					}
				}
			}
			n++
			if stuck {
				// goroutines of this schedule are still blocked inside the connection: do not let
				// them disturb the following schedules; the driver continues in a fresh process
				stoppedAt = i
				break
			}
		}
		w.Close()
		fmt.Fprintf(os.Stderr, "SCHED end\n")
		obs.Stat("schedules", n)
		obs.Stat("events_applied", applied)
		obs.Stat("events_skipped", skipped)
		obs.Stat("calls", calls)
		obs.Stat("peer_handshakes_ok", hsOK)
		obs.Stat("stopped_at", stoppedAt)
	case "replay":
		var c struct {
			Schedule Schedule `json:"schedule"`
			Kind     string   `json:"kind"`
		}
		obs.ReadReplay(os.Args[2], &c)
		warmUp()
		fmt.Fprintf(os.Stderr, "SCHED %d\n", c.Schedule.ID)
		ev, stuck := runSchedule(c.Schedule, watchdog)
		fmt.Fprintf(os.Stderr, "SCHED end\n")
		if len(os.Args) > 3 {
			w := obs.NewWriter(os.Args[3])
			for _, e := range ev {
				w.Write(e)
			}
			w.Close()
		}
		if stuck {
			fmt.Println("REPRODUCED: a call is still blocked after the transport went down and every deadline expired")
			os.Exit(1)
		}
		fmt.Println("not reproduced (no stuck call)")
	case "selftest":
		selftest()
	default:
		fatal("unknown command %q", os.Args[1])
	}
}

// warmUp runs one handshake per version before the first schedule: the first handshake of a process
// is slow (one-time initialisations), which would distort the timing of the first schedule.
func warmUp() {
	fmt.Fprintf(os.Stderr, "SCHED warmup\n")
	for _, v := range []string{"1.2", "1.3"} {
		runSchedule(Schedule{ID: -1, Progs: [][]string{{"Handshake"}}, Ev: []SEvent{{T: "s", G: 1}}, Ver: v, Mode: "free"}, watchdog)
	}
}

// selftest: the abstraction function decodeRuns inverts payload() on every split of a stream
// into chunks (concretisation check).
func selftest() {
	rng := mrand.New(mrand.NewSource(obs.Seed()))
	cases := 0
	for it := 0; it < 400; it++ {
		w := 1 + rng.Intn(120)
		n := 3 * (1 + rng.Intn(40))
		if it%10 == 0 {
			n = bigLen
		}
		p := payload(w, n)
		// cut into chunks of random sizes >= 5 (or the 1-byte first chunk of the TLS 1.0 split)
		off := 0
		first := true
		for off < n {
			c := 5 + rng.Intn(50)
			if it%10 == 0 {
				c = 5 + rng.Intn(17000)
			}
			if first && it%7 == 0 {
				c = 1
			}
			first = false
			if off+c > n || n-(off+c) < 5 {
				c = n - off
			}
			runs, ok := decodeRuns(p[off : off+c])
			if !ok || len(runs) != 1 || runs[0].W != w || runs[0].Off != off || runs[0].N != c {
				fatal("selftest: payload(%d,%d)[%d:%d] decoded to %+v ok=%v", w, n, off, off+c, runs, ok)
			}
			off += c
			cases++
		}
		// two payloads back to back in one chunk, and a corrupted byte
		q := append(append([]byte{}, p...), payload(w%120+1, 6)...)
		runs, ok := decodeRuns(q)
		if !ok || len(runs) != 2 || runs[1].W != w%120+1 || runs[1].Off != 0 || runs[1].N != 6 {
			fatal("selftest: concatenation decoded to %+v", runs)
		}
		q[len(p)/2] ^= 0x15
		runs, _ = decodeRuns(q)
		// the damaged group is either no group at all (w = -1) or a group of another place of the
		// stream: in both cases the payload is no longer the one contiguous run (w, 0, len)
		bad := len(runs) != 2 || runs[0] != (Run{W: w, Off: 0, N: len(p)})
		if !bad {
			fatal("selftest: corrupted byte not flagged: %+v", runs)
		}
		cases += 2
	}
	obs.Stat("selftest_cases", cases)
}
