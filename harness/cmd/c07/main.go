// c07: conformance harness binding PKI.tla / ChainBuilder.tla to x509.Certificate.Verify and
// ValidateWithStupidDetail.
//
//	c07 run <universe.ndjson> <cases.ndjson> <obs-out.ndjson>
//	       concretise every abstract certificate (lib/pki), check the concretisation by deriving the
//	       abstract record back from the parsed certificate, run Verify for every case x time and
//	       write the projected results for TLC (Trace_ChainBuilder.tla).  The harness judges nothing.
//	c07 random <universe-out> <cases-out> <n> <maxcerts>
//	       seeded random PKIs (DAGs with cross-signs, bad signatures, shared subjects...) in the same
//	       file formats, to be run with "run" and judged by TLC.
//	c07 zerotime <obs-out.ndjson>
//	       Verify with VerifyOptions.CurrentTime left zero (documented: "the current time is used")
package main

import (
	"crypto/sha256"
	"encoding/json"
	"fmt"
	"hash/fnv"
	"math/rand"
	"os"
	"runtime"
	"strconv"
	"sync"
	"time"

	"github.com/zmap/zcrypto/x509"
	"verifharness/lib/obs"
	"verifharness/lib/pki"
	"verifharness/lib/pkv"
)

type Case struct {
	Certs  []string `json:"certs"`
	Roots  []string `json:"roots"`
	Inters []string `json:"inters"`
	Leaf   string   `json:"leaf"`
	Usages []string `json:"usages"`
	DNS    string   `json:"dns"`
	Times  []int    `json:"times"`
	Mode   string   `json:"mode"`
	Drift  bool     `json:"drift"`
}

type Obs struct {
	Case    int        `json:"case"` // 1-based line number in the cases file
	API     string     `json:"api"`
	T       int        `json:"t"`
	Current [][]string `json:"current"`
	Expired [][]string `json:"expired"`
	Never   [][]string `json:"never"`
	Err     string     `json:"err"`
	Panic   bool       `json:"panic"`
	Trusted bool       `json:"trusted"` // Validation.BrowserTrusted (api "stupid" only)
	Detail  string     `json:"detail,omitempty"`
}

var (
	universe = map[string]pki.Cert{}
	ders     = map[string][]byte{}
	idByFP   = map[[32]byte]string{}
)

func loadUniverse(path string) []string {
	var ids []string
	err := obs.ReadLines(path, func(line []byte) error {
		var c pki.Cert
		if err := json.Unmarshal(line, &c); err != nil {
			return err
		}
		if _, dup := universe[c.ID]; dup {
			return fmt.Errorf("duplicate certificate id %q", c.ID)
		}
		universe[c.ID] = c
		ids = append(ids, c.ID)
		return nil
	})
	if err != nil {
		obs.Fatal("universe: %v", err)
	}
	return ids
}

func loadCases(path string) []Case {
	var cases []Case
	err := obs.ReadLines(path, func(line []byte) error {
		var c Case
		if err := json.Unmarshal(line, &c); err != nil {
			return err
		}
		cases = append(cases, c)
		return nil
	})
	if err != nil {
		obs.Fatal("cases: %v", err)
	}
	return cases
}

// buildAll concretises the universe in parallel and checks every concretisation.
func buildAll(ids []string) {
	type res struct {
		id  string
		der []byte
	}
	out := make([]res, len(ids))
	var wg sync.WaitGroup
	nw := workers()
	for w := 0; w < nw; w++ {
		wg.Add(1)
		go func(w int) {
			defer wg.Done()
			for i := w; i < len(ids); i += nw {
				c := universe[ids[i]]
				der, err := pki.Build(c)
				if err != nil {
					obs.Fatal("concretise %s: %v", c.ID, err)
				}
				out[i] = res{c.ID, der}
			}
		}(w)
	}
	wg.Wait()
	for _, r := range out {
		ders[r.id] = r.der
		fp := sha256.Sum256(r.der)
		if other, dup := idByFP[fp]; dup {
			obs.Fatal("certificates %s and %s have the same DER", other, r.id)
		}
		idByFP[fp] = r.id
	}
	// abstraction function: the parsed real certificate must give back the abstract record
	keyIDs := map[string]bool{}
	for _, id := range ids {
		keyIDs[universe[id].Key] = true
		keyIDs[universe[id].SKey] = true
	}
	for _, id := range ids {
		if msg := pkv.CheckConcretisation(universe[id], ders[id], keyIDs); msg != "" {
			obs.Fatal("concretisation of %s does not match its abstract record: %s", id, msg)
		}
	}
}

func workers() int {
	if s := os.Getenv("VERIF_WORKERS"); s != "" {
		if n, err := strconv.Atoi(s); err == nil && n > 0 {
			return n
		}
	}
	n := runtime.NumCPU()
	if n > 8 {
		n = 8
	}
	return n
}

// worker-local parsed certificates (Verify writes ValidSignature into the certificates it touches)
type parsed map[string]*x509.Certificate

func (p parsed) get(id string) *x509.Certificate {
	if c, ok := p[id]; ok {
		return c
	}
	der, ok := ders[id]
	if !ok {
		obs.Fatal("case refers to unknown certificate %q", id)
	}
	c, err := x509.ParseCertificate(der)
	if err != nil {
		obs.Fatal("parse %s: %v", id, err)
	}
	p[id] = c
	return c
}

func project(chains []x509.CertificateChain) [][]string {
	out := make([][]string, 0, len(chains))
	for _, ch := range chains {
		ids := make([]string, 0, len(ch))
		for _, c := range ch {
			id := "?"
			if c != nil {
				if v, ok := idByFP[sha256.Sum256(c.Raw)]; ok {
					id = v
				}
			}
			ids = append(ids, id)
		}
		out = append(out, ids)
	}
	return out
}

func classify(err error) string {
	switch e := err.(type) {
	case nil:
		return "nil"
	case x509.HostnameError:
		return "hostname"
	case x509.UnknownAuthorityError:
		return "unknown-authority"
	case x509.CertificateInvalidError:
		switch e.Reason {
		case x509.Expired:
			return "expired"
		case x509.NeverValid:
			return "never"
		case x509.IncompatibleUsage:
			return "usage"
		case x509.IsSelfSigned:
			return "selfsigned"
		case x509.NotAuthorizedToSign:
			return "not-authorized-to-sign"
		case x509.TooManyIntermediates:
			return "too-many-intermediates"
		}
		return "invalid"
	}
	return "other"
}

const watchdog = 120 * time.Second // normal latency of one call is well below 100 ms

func runCase(p parsed, idx int, cs Case, zeroTime bool) []Obs {
	roots := x509.NewCertPool()
	for _, id := range cs.Roots {
		roots.AddCert(p.get(id))
	}
	// choices that are not part of the case derive from its content (not from its position), so that a
	// replay of the case alone makes the same calls
	h := fnv.New32a()
	for _, id := range cs.Certs {
		h.Write([]byte(id))
	}
	for _, id := range cs.Roots {
		h.Write([]byte(id))
	}
	pick := h.Sum32()
	var inters *x509.CertPool
	if len(cs.Inters) > 0 || pick%2 == 0 {
		inters = x509.NewCertPool()
		for _, id := range cs.Inters {
			inters.AddCert(p.get(id))
		}
	}
	leaf := p.get(cs.Leaf)
	var usages []x509.ExtKeyUsage
	for _, u := range cs.Usages {
		v, ok := pkv.EKUValue[u]
		if !ok {
			obs.Fatal("unknown requested usage %q", u)
		}
		usages = append(usages, v)
	}
	var out []Obs
	for _, t := range cs.Times {
		opts := x509.VerifyOptions{Roots: roots, Intermediates: inters, CurrentTime: pki.At(t), DNSName: cs.DNS, KeyUsages: usages}
		if zeroTime {
			opts.CurrentTime = time.Time{}
		}
		o := Obs{Case: idx, API: "verify", T: t}
		g := obs.Guard(watchdog, func() {
			cur, exp, nev, err := leaf.Verify(opts)
			o.Current, o.Expired, o.Never, o.Err = project(cur), project(exp), project(nev), classify(err)
		})
		if g.Panic != "" || g.Timeout {
			o = Obs{Case: idx, API: "verify", T: t, Panic: true, Detail: g.Panic, Err: "panic",
				Current: [][]string{}, Expired: [][]string{}, Never: [][]string{}}
			if g.Timeout {
				o.Detail = "timeout"
			}
		}
		out = append(out, o)
		// the deprecated detail API goes through Verify with no key usages and its own name check
		if !zeroTime && (cs.Mode != "topo" || pick%4 < 2) {
			s := Obs{Case: idx, API: "stupid", T: t, Expired: [][]string{}, Never: [][]string{}}
			g := obs.Guard(watchdog, func() {
				chains, val, err := leaf.ValidateWithStupidDetail(opts)
				s.Current, s.Err = project(chains), classify(err)
				if val != nil {
					s.Trusted = val.BrowserTrusted
				}
			})
			if g.Panic != "" || g.Timeout {
				s = Obs{Case: idx, API: "stupid", T: t, Panic: true, Detail: g.Panic, Err: "panic",
					Current: [][]string{}, Expired: [][]string{}, Never: [][]string{}}
			}
			out = append(out, s)
		}
	}
	return out
}

func run(upath, cpath, opath string, zeroTime bool) {
	ids := loadUniverse(upath)
	buildAll(ids)
	cases := loadCases(cpath)
	results := make([][]Obs, len(cases))
	var wg sync.WaitGroup
	nw := workers()
	var next int
	var mu sync.Mutex
	for w := 0; w < nw; w++ {
		wg.Add(1)
		go func() {
			defer wg.Done()
			p := parsed{}
			for {
				// blocks of consecutive cases per worker: successive calls in one goroutine share
				// nothing but the package's own state, which is what a leaked cache would hit
				mu.Lock()
				lo := next
				next += 64
				mu.Unlock()
				if lo >= len(cases) {
					return
				}
				hi := lo + 64
				if hi > len(cases) {
					hi = len(cases)
				}
				for i := lo; i < hi; i++ {
					results[i] = runCase(p, i+1, cases[i], zeroTime)
				}
			}
		}()
	}
	wg.Wait()
	w := obs.NewWriter(opath)
	calls, chains, nonEmpty, panics := 0, 0, 0, 0
	for _, rs := range results {
		for _, o := range rs {
			w.Write(o)
			calls++
			n := len(o.Current) + len(o.Expired) + len(o.Never)
			chains += n
			if n > 0 {
				nonEmpty++
			}
			if o.Panic {
				panics++
			}
		}
	}
	w.Close()
	obs.Stat("certificates", len(ids))
	obs.Stat("cases", len(cases))
	obs.Stat("calls", calls)
	obs.Stat("chains_returned", chains)
	obs.Stat("calls_returning_chains", nonEmpty)
	obs.Stat("panics", panics)
}

// ---------------------------------------------------------------------------------------------
// seeded random PKIs (code -> spec direction)

func random(upath, cpath string, n, maxCerts int) {
	rng := rand.New(rand.NewSource(obs.Seed()*7919 + 17))
	uw := obs.NewWriter(upath)
	cw := obs.NewWriter(cpath)
	windows := [][2]int{{0, 1000}, {0, 1000}, {0, 1000}, {100, 200}, {200, 300}, {150, 250}, {260, 240}, {0, 500}, {500, 1000}}
	ekus := [][]string{{}, {}, {}, {"server"}, {"client"}, {"any"}, {"msgc"}, {"unk"}, {"client", "server"}, {"nsgc", "email"}}
	reqs := [][]string{{}, {}, {"server"}, {"client"}, {"any"}, {"client", "server"}, {"email"}}
	for k := 0; k < n; k++ {
		nc := 3 + rng.Intn(maxCerts-2)
		nNames := 2 + rng.Intn(4)
		nKeys := 2 + rng.Intn(4)
		name := func() string { return fmt.Sprintf("N%d", 1+rng.Intn(nNames)) }
		key := func() string { return fmt.Sprintf("K%d", 1+rng.Intn(nKeys)) }
		var certs []pki.Cert
		mk := func(i int, leaf bool) pki.Cert {
			c := pki.Cert{ID: fmt.Sprintf("r%d-%d", k, i), Subj: name(), Key: key(), Ver: 3, BC: true, CA: true, PathLen: -1,
				EKU: []string{}, DNS: []string{}}
			if leaf {
				c.Subj, c.Key = "N0", "K0"
			}
			// issuer: usually an existing certificate (so that links exist), sometimes anything
			if len(certs) > 0 && rng.Intn(10) < 8 {
				p := certs[rng.Intn(len(certs))]
				c.Iss, c.SKey = p.Subj, p.Key
				if rng.Intn(10) == 0 {
					c.SKey = key() // bad signature
				}
				if rng.Intn(4) == 0 {
					c.AKID = c.SKey
					if rng.Intn(6) == 0 {
						c.AKID = key()
					}
				}
			} else if rng.Intn(2) == 0 {
				c.Iss, c.SKey = c.Subj, c.Key // self-signed
			} else {
				c.Iss, c.SKey = name(), key()
			}
			w := windows[rng.Intn(len(windows))]
			c.NB, c.NA = w[0], w[1]
			c.EKU = append([]string{}, ekus[rng.Intn(len(ekus))]...)
			switch rng.Intn(12) {
			case 0:
				c.Ver, c.BC, c.CA, c.EKU, c.AKID = 1, false, false, []string{}, ""
			case 1:
				c.BC, c.CA = false, false
			case 2:
				c.CA = false
			case 3, 4:
				c.PathLen = rng.Intn(3)
			}
			if c.Ver == 3 && rng.Intn(4) == 0 {
				c.SKID = c.Key
				if rng.Intn(8) == 0 {
					c.SKID = key()
				}
			}
			if c.Ver == 3 && rng.Intn(8) == 0 {
				c.KU = []int{1, 32, 33}[rng.Intn(3)]
			}
			if leaf {
				if c.Ver == 3 {
					c.DNS = []string{"a.example"}
				} else {
					c.CN = "a.example"
				}
			}
			return c
		}
		for i := 1; i < nc; i++ {
			certs = append(certs, mk(i, false))
		}
		// cross-sign: re-issue an existing subject and key under another parent
		for i := 0; i < len(certs) && len(certs) < nc+2; i++ {
			if rng.Intn(5) == 0 {
				x := certs[i]
				p := certs[rng.Intn(len(certs))]
				x.ID = fmt.Sprintf("r%d-x%d", k, i)
				x.Iss, x.SKey, x.AKID = p.Subj, p.Key, ""
				certs = append(certs, x)
			}
		}
		leaf := mk(0, true)
		var cs Case
		cs.Leaf = leaf.ID
		cs.Certs = []string{leaf.ID}
		cs.Roots, cs.Inters = []string{}, []string{}
		rng.Shuffle(len(certs), func(i, j int) { certs[i], certs[j] = certs[j], certs[i] })
		for _, c := range certs {
			cs.Certs = append(cs.Certs, c.ID)
			selfSigned := c.Iss == c.Subj && c.SKey == c.Key
			switch r := rng.Intn(10); {
			case selfSigned && r < 8 || !selfSigned && r < 1:
				cs.Roots = append(cs.Roots, c.ID)
				if rng.Intn(4) == 0 {
					cs.Inters = append(cs.Inters, c.ID)
				}
			default:
				cs.Inters = append(cs.Inters, c.ID)
			}
		}
		if rng.Intn(20) == 0 {
			cs.Roots = append(cs.Roots, leaf.ID)
		}
		if rng.Intn(10) == 0 {
			cs.Inters = append(cs.Inters, leaf.ID)
		}
		cs.Usages = append([]string{}, reqs[rng.Intn(len(reqs))]...)
		cs.DNS = []string{"", "", "a.example", "b.example"}[rng.Intn(4)]
		all := append([]pki.Cert{leaf}, certs...)
		var bt []int
		for _, c := range all {
			bt = append(bt, c.NB-1, c.NB, c.NB+1, c.NA-1, c.NA, c.NA+1)
		}
		cs.Times = []int{500, bt[rng.Intn(len(bt))], bt[rng.Intn(len(bt))], 175, 225}
		cs.Mode = "random"
		cs.Drift = len(all) <= 7
		for _, c := range all {
			uw.Write(abstractJSON(c))
		}
		cw.Write(cs)
	}
	uw.Close()
	cw.Close()
	obs.Stat("random_cases", n)
}

// abstractJSON is the record PKI.tla knows (exactly its fields, no nulls).
func abstractJSON(c pki.Cert) map[string]any {
	eku, dns := c.EKU, c.DNS
	if eku == nil {
		eku = []string{}
	}
	if dns == nil {
		dns = []string{}
	}
	return map[string]any{"id": c.ID, "subj": c.Subj, "key": c.Key, "iss": c.Iss, "skey": c.SKey, "ver": c.Ver,
		"bc": c.BC, "ca": c.CA, "pathlen": c.PathLen, "nb": c.NB, "na": c.NA, "eku": eku, "skid": c.SKID,
		"akid": c.AKID, "ku": c.KU, "dns": dns, "cn": c.CN}
}

func main() {
	if len(os.Args) < 2 {
		obs.Fatal("usage: c07 run|random|zerotime ...")
	}
	pki.Namespace = "c07"
	switch os.Args[1] {
	case "run":
		if len(os.Args) != 5 {
			obs.Fatal("usage: c07 run <universe> <cases> <obs-out>")
		}
		run(os.Args[2], os.Args[3], os.Args[4], false)
	case "runzero":
		run(os.Args[2], os.Args[3], os.Args[4], true)
	case "random":
		n, _ := strconv.Atoi(os.Args[4])
		m, _ := strconv.Atoi(os.Args[5])
		random(os.Args[2], os.Args[3], n, m)
	default:
		obs.Fatal("unknown command %q", os.Args[1])
	}
}
