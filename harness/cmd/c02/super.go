package main

// Supervision of the operation runs: `run` and `one` execute in a worker child of this binary.
// A hanging operation (watchdog, exit 4) or a death of the worker (out of memory, stack overflow)
// becomes the observation "timeout" / "fatal" of the operation in flight; the worker is restarted
// at the subject it was working on with that observation injected.  After banK such deaths of the
// same operation it is no longer applied ("notrun").  The whole stage has a wall budget
// (VERIF_C02_BUDGET_S); when it is used up the supervisor stops and the driver goes on with what
// was gathered.

import (
	"bufio"
	"encoding/json"
	"fmt"
	"os"
	"os/exec"
	"strconv"
	"strings"
	"time"

	"verifharness/lib/inputs"
	"verifharness/lib/obs"
)

const banK = 3

type superState struct {
	From     string            `json:"from"`     // subject key to resume at
	Inject   map[string]string `json:"inject"`   // subject|op|arg|mode|seed -> "timeout" | "fatal"
	Ban      []string          `json:"ban"`      // operation names no longer applied
	Counters map[string]int    `json:"counters"` // cumulative statistics at From
	Marker   string            `json:"marker"`
}

type markerRec struct {
	Subj     string         `json:"subj"`
	Op       string         `json:"op"`
	A        string         `json:"a"`
	Mode     string         `json:"mode"`
	Seed     string         `json:"seed"`
	Counters map[string]int `json:"counters"`
}

var (
	sup      superState
	supChild bool
	markerF  *os.File
	banned   = map[string]bool{}
	counters = map[string]int{}
)

func injectKey(subj string, o op, mode, seed string) string {
	return subj + "|" + o.Op + "|" + o.A + "|" + mode + "|" + seed
}

// childInit loads the supervisor's state in a worker child.
func childInit() {
	p := os.Getenv("VERIF_C02_STATE")
	if p == "" {
		return
	}
	supChild = true
	b, err := os.ReadFile(p)
	if err != nil {
		obs.Fatal("state: %v", err)
	}
	if err := json.Unmarshal(b, &sup); err != nil {
		obs.Fatal("state: %v", err)
	}
	for _, o := range sup.Ban {
		banned[o] = true
	}
	for k, v := range sup.Counters {
		counters[k] = v
	}
	markerF, err = os.OpenFile(sup.Marker, os.O_CREATE|os.O_RDWR, 0o644)
	if err != nil {
		obs.Fatal("marker: %v", err)
	}
}

func setMarker(subj string, o op, mode, seed string) {
	if markerF == nil {
		return
	}
	b, _ := json.Marshal(markerRec{Subj: subj, Op: o.Op, A: o.A, Mode: mode, Seed: seed, Counters: snap})
	for len(b) < 1024 {
		b = append(b, ' ')
	}
	markerF.WriteAt(b, 0)
}

// preOp: the observation of an operation that is not executed (injected or banned), if any.
func preOp(subj string, o op, mode, seed string) (inputs.Result, bool) {
	if out, ok := sup.Inject[injectKey(subj, o, mode, seed)]; ok {
		r := inputs.Result{EP: o.Op, M: mode, O: out}
		if out == "timeout" {
			r.Ms = 5001
		}
		return r, true
	}
	if banned[o.Op] {
		counters["calls_not_run"]++
		return inputs.Result{EP: o.Op, M: mode, O: "notrun"}, true
	}
	setMarker(subj, o, mode, seed)
	return inputs.Result{}, false
}

// beginSubject snapshots the statistics: a worker restarted at this subject continues from them.
var snap = map[string]int{}

func beginSubject() {
	snap = map[string]int{}
	for k, v := range counters {
		snap[k] = v
	}
}

// skipSubject: subjects before the resume point were completed by an earlier worker.
func skipSubject(key string) bool { return supChild && key < sup.From }

// flushWriter appends NDJSON and flushes after every record, so that a worker death loses nothing
// that was completed.
type flushWriter struct {
	f *os.File
	w *bufio.Writer
}

func newFlushWriter(path string) *flushWriter {
	flags := os.O_CREATE | os.O_WRONLY | os.O_TRUNC
	if supChild && sup.From != "" {
		flags = os.O_CREATE | os.O_WRONLY | os.O_APPEND
	}
	f, err := os.OpenFile(path, flags, 0o644)
	if err != nil {
		obs.Fatal("open %s: %v", path, err)
	}
	return &flushWriter{f: f, w: bufio.NewWriterSize(f, 1<<16)}
}

func (w *flushWriter) Write(v any) {
	b, err := json.Marshal(v)
	if err != nil {
		obs.Fatal("marshal: %v", err)
	}
	w.w.Write(b)
	w.w.WriteByte('\n')
	w.w.Flush()
}

func (w *flushWriter) Close() { w.w.Flush(); w.f.Close() }

// supervise runs the command in worker children until it completes.
func supervise(outPath string) {
	self, _ := os.Executable()
	statePath, markerPath := outPath+".state", outPath+".marker"
	defer os.Remove(statePath)
	defer os.Remove(markerPath)
	st := superState{Inject: map[string]string{}, Counters: map[string]int{}, Marker: markerPath}
	var deadline time.Time
	if b, err := strconv.Atoi(os.Getenv("VERIF_C02_BUDGET_S")); err == nil && b > 0 {
		deadline = time.Now().Add(time.Duration(b) * time.Second)
	}
	deathsBy := map[string]int{}
	deaths := 0
	for {
		b, _ := json.Marshal(st)
		if err := os.WriteFile(statePath, b, 0o644); err != nil {
			obs.Fatal("state: %v", err)
		}
		os.Remove(markerPath)
		cmd := exec.Command(self, os.Args[1:]...)
		cmd.Env = append(os.Environ(), "VERIF_C02_STATE="+statePath)
		cmd.Stdout = os.Stdout
		var stderr strings.Builder
		cmd.Stderr = &stderr
		if err := cmd.Start(); err != nil {
			obs.Fatal("start worker: %v", err)
		}
		killed := false
		var tm *time.Timer
		if !deadline.IsZero() {
			tm = time.AfterFunc(time.Until(deadline), func() { killed = true; cmd.Process.Kill() })
		}
		werr := cmd.Wait()
		if tm != nil {
			tm.Stop()
		}
		if werr == nil {
			obs.Stat("worker_deaths", deaths)
			if len(st.Ban) > 0 {
				obs.Stat("banned", st.Ban)
			}
			return
		}
		var m markerRec
		if mb, err := os.ReadFile(markerPath); err == nil {
			json.Unmarshal([]byte(strings.TrimSpace(string(mb))), &m)
		}
		if killed {
			for k, v := range m.Counters {
				obs.Stat(k, v)
			}
			obs.Stat("worker_deaths", deaths)
			obs.Stat("budget_cut", 1)
			if len(st.Ban) > 0 {
				obs.Stat("banned", st.Ban)
			}
			return
		}
		code := -1
		if ee, ok := werr.(*exec.ExitError); ok {
			code = ee.ExitCode()
		}
		if code == 3 || m.Subj == "" || m.Op == "" {
			fmt.Fprint(os.Stderr, stderr.String())
			obs.Fatal("worker died (exit %d) outside a guarded operation", code)
		}
		deaths++
		out := "fatal"
		if code == 4 {
			out = "timeout"
		}
		st.Inject[injectKey(m.Subj, op{m.Op, m.A}, m.Mode, m.Seed)] = out
		deathsBy[m.Op+"|"+out]++
		if deathsBy[m.Op+"|"+out] >= banK {
			has := false
			for _, x := range st.Ban {
				has = has || x == m.Op
			}
			if !has {
				st.Ban = append(st.Ban, m.Op)
			}
		}
		st.From = m.Subj
		st.Counters = m.Counters
		if deaths > 500 {
			obs.Fatal("too many worker deaths")
		}
	}
}
