// c02: conformance harness binding spec/InputsCert.tla to the post-parse operations on
// certificates (JSON, signature checks against candidate parents, hostname verification, name
// collection, pool and graph insertion).
//
//	c02 run <certops_model.json> <inputs_model.json> <cert programs.ndjson | -> <out.ndjson> <shard> <nshards> [summary|detail] [only.json]
//	c02 one <certops_model.json> <inputs_model.json> <replay.json> <out.ndjson>
//
// Subjects are (a) one real certificate per extension-content shape of InputsCert!Shapes and
// (b) the mutated certificates of C01 (TLC-generated programs of kind cert concretised on the
// certificate seeds).  Every subject is parsed in both modes; where ParseCertificate accepts it,
// every operation program of the model is applied to a freshly parsed copy (shapes) / the program
// applying every operation once (mutated certificates).  The harness only executes and logs;
// Trace_InputsCert.tla judges.
package main

import (
	"bytes"
	"encoding/hex"
	"encoding/json"
	"fmt"
	"os"
	"sort"
	"strconv"
	"strings"
	"time"

	"github.com/zmap/zcrypto/verifier"
	"github.com/zmap/zcrypto/x509"

	"verifharness/lib/dertree"
	"verifharness/lib/inputs"
	"verifharness/lib/obs"
)

type op struct {
	Op string `json:"op"`
	A  string `json:"a"`
}

type certModel struct {
	Shapes    []inputs.Shape `json:"shapes"`
	Programs  [][]op         `json:"programs"`
	Ops       []op           `json:"ops"`
	NShapes   int            `json:"nshapes"`
	NPrograms int            `json:"nprograms"`
}

type opRes struct {
	Op   string   `json:"op"`
	A    string   `json:"a"`
	OS   []string `json:"os"`
	Same []string `json:"same"`
	Ms   int      `json:"ms"`
	os   map[string]bool
	same map[string]bool
}

type badOp struct {
	Op    string `json:"op"`
	A     string `json:"a"`
	O     string `json:"o"`
	Same  string `json:"same"`
	Msg   string `json:"msg,omitempty"`
	Site  string `json:"site,omitempty"`
	Mode  string `json:"mode"`
	Seed  string `json:"seed,omitempty"`
	Prog  []op   `json:"prog"`
	Hex   string `json:"hex,omitempty"`
	HexOf int    `json:"hexof"` // index of the witness of this summary that carries the input bytes
}

type summary struct {
	Src   string       `json:"src"`
	X     string       `json:"x"`
	V     [][]string   `json:"v"`
	P     []inputs.Mut `json:"p"`
	N     int          `json:"n"`
	Acc   int          `json:"acc"`
	NProg int          `json:"nprog"`
	R     []*opRes     `json:"r"`
	I     int          `json:"i"`
	Seed  string       `json:"seed,omitempty"`
	Mode  string       `json:"mode,omitempty"`
	Bad   []badOp      `json:"bad,omitempty"`
	byOp  map[op]*opRes
}

type env struct {
	cm          *certModel
	model       *inputs.Model
	seeds       *inputs.Seeds
	certs       map[string][]byte
	parents     map[string]*x509.Certificate // cache: issuer bytes + class -> candidate parent (nil = none)
	childs      map[string]*x509.Certificate
	allOps      []op
	detail      bool
	jsonRepeats int
	out         *flushWriter
	curSubj     string // key of the subject being processed (supervision)
	curSeed     string
	nsum        int
}

func seedBytes(s *inputs.Seeds, name string) []byte {
	for _, sd := range s.ByKind["cert"] {
		if sd.Name == name {
			return sd.Data
		}
	}
	obs.Fatal("no certificate seed %q", name)
	return nil
}

// parseEither parses with zcrypto, permissive first (accepts more), then strict.
func parseEither(der []byte) *x509.Certificate {
	var c *x509.Certificate
	r := inputs.Call("parse", "permissive", func() error {
		var err error
		c, err = x509.ParseCertificate(der)
		return err
	})
	if r.O == "ok" {
		return c
	}
	r = inputs.Call("parse", "strict", func() error {
		var err error
		c, err = x509.ParseCertificate(der)
		return err
	})
	if r.O == "ok" {
		return c
	}
	return nil
}

// namedParent: the issuer certificate ed-root re-labelled with subject = wantSubject (raw DER
// name), issued by somebody else (so that parsing does not run the self-signature test), with a
// public key of the given shape.
func (e *env) namedParent(wantSubject []byte, shape string) *x509.Certificate {
	key := shape + "/" + string(wantSubject)
	if p, ok := e.parents[key]; ok {
		return p
	}
	root, err := dertree.Parse(e.certs["ed-root"])
	if err != nil {
		obs.Fatal("ed-root: %v", err)
	}
	tbs := root.Children[0]
	issuer := dertree.Resolve(root, []string{"0", "v2"})
	subject := dertree.Resolve(root, []string{"0", "v4"})
	spki := dertree.Resolve(root, []string{"0", "v5"})
	other := dertree.Seq(dertree.Set(dertree.Seq(dertree.OID("2.5.4.3"), dertree.UTF8("Somebody Else"))))
	ws, err := dertree.Parse(wantSubject)
	if err != nil {
		e.parents[key] = nil
		return nil
	}
	for i, k := range tbs.Children {
		switch k {
		case issuer:
			other.Parent = tbs
			tbs.Children[i] = other
		case subject:
			ws.Parent = tbs
			tbs.Children[i] = ws
		}
	}
	art := &dertree.DerArtifact{Root: root}
	if err := art.ApplyDer(spki, "KeyShape", shape, nil); err != nil {
		obs.Fatal("key shape %s: %v", shape, err)
	}
	der, _ := art.Bytes(nil)
	p := parseEither(der)
	e.parents[key] = p
	return p
}

// childOf: a leaf of the given signature class whose issuer name is wantIssuer.
func (e *env) childOf(wantIssuer []byte, class string) *x509.Certificate {
	key := class + "/" + string(wantIssuer)
	if c, ok := e.childs[key]; ok {
		return c
	}
	seed := map[string]string{"ed25519": "ed-leaf", "ecdsa": "p256-leaf", "rsa": "rsa-leaf", "rsapss": "rsapss-root"}[class]
	root, err := dertree.Parse(e.certs[seed])
	if err != nil {
		obs.Fatal("%s: %v", seed, err)
	}
	tbs := root.Children[0]
	issuer := dertree.Resolve(root, []string{"0", "v2"})
	wi, err := dertree.Parse(wantIssuer)
	if err != nil {
		e.childs[key] = nil
		return nil
	}
	if class == "rsapss" {
		// the PSS seed is self-signed: give it another subject so that it is a child
		subject := dertree.Resolve(root, []string{"0", "v4"})
		other := dertree.Seq(dertree.Set(dertree.Seq(dertree.OID("2.5.4.3"), dertree.UTF8("Pss Child"))))
		for i, k := range tbs.Children {
			if k == subject {
				other.Parent = tbs
				tbs.Children[i] = other
			}
		}
	}
	for i, k := range tbs.Children {
		if k == issuer {
			wi.Parent = tbs
			tbs.Children[i] = wi
		}
	}
	c := parseEither(dertree.Serialise(root))
	e.childs[key] = c
	return c
}

var hostArg = map[string]string{"very-long": strings.Repeat("a.", 200) + "example.com"}

// apply executes one operation on cert; same reports the JSON determinism check.
func (e *env) apply(cert *x509.Certificate, o op, mode string) (inputs.Result, string) {
	if r, ok := preOp(e.curSubj, o, mode, e.curSeed); ok {
		return r, "n/a"
	}
	same := "n/a"
	var f func() error
	switch o.Op {
	case "MarshalJSON2":
		f = func() error {
			// "twice" = any two serialisations: serialise a few times (more often when one case is
			// re-run, so that an order that varies from run to run is seen again) and compare each
			// with the first
			j1, err1 := json.Marshal(cert)
			same = "same"
			for i := 0; i < e.jsonRepeats; i++ {
				j2, err2 := json.Marshal(cert)
				if (err1 == nil) != (err2 == nil) || (err1 == nil && !bytes.Equal(j1, j2)) {
					same = "differs"
				}
			}
			if err1 != nil {
				if same == "same" {
					same = "n/a"
				}
				return err1
			}
			return nil
		}
	case "CollectAllNames":
		f = func() error {
			// only totality is demanded of name collection; its order shows up in the JSON
			// determinism check ("names" member)
			_ = cert.CollectAllNames()
			return nil
		}
	case "PoolAddCert":
		f = func() error {
			p := x509.NewCertPool()
			p.AddCert(cert)
			p.AddCert(inputs.Aux.Issuer)
			p.AddCert(cert)
			_ = p.Contains(cert)
			_ = p.Subjects()
			return nil
		}
	case "GraphAddCert":
		f = func() error {
			g := verifier.NewGraph()
			g.AddCert(cert)
			g.AddCert(inputs.Aux.Issuer)
			g.AddCert(cert)
			_ = g.Nodes()
			_ = g.Edges()
			return nil
		}
	case "GraphAddRoot":
		f = func() error {
			g := verifier.NewGraph()
			g.AddRoot(cert)
			g.AddCert(inputs.Aux.Leaf)
			_ = g.IsRoot(cert)
			return nil
		}
	case "JsonifyExtensions":
		f = func() error {
			ext, unk := cert.JsonifyExtensions()
			if _, err := json.Marshal(ext); err != nil {
				return err
			}
			_, err := json.Marshal(unk)
			return err
		}
	case "ParsedNames":
		f = func() error {
			_ = cert.GetParsedDNSNames(true)
			_ = cert.GetParsedSubjectCommonName(true)
			_ = cert.GetParsedDNSNames(false)
			return nil
		}
	case "Fingerprints":
		f = func() error {
			_ = cert.SubjectAndKey()
			_ = cert.SignatureAlgorithmName()
			_ = cert.PublicKeyAlgorithmName()
			_ = cert.Equal(cert)
			_ = cert.TimeInValidityPeriod(time.Unix(1700000000, 0))
			return nil
		}
	case "CheckSignatureFrom":
		var parent *x509.Certificate
		switch o.A {
		case "self":
			parent = cert
		case "issuer":
			parent = inputs.Aux.Issuer
		case "unrelated":
			parent = inputs.Aux.Leaf
		default:
			parent = e.namedParent(cert.RawIssuer, strings.TrimPrefix(o.A, "named:"))
			if parent == nil {
				return inputs.Result{EP: o.Op, M: mode, O: "skip"}, same
			}
		}
		f = func() error { return cert.CheckSignatureFrom(parent) }
	case "ParentCheckSignatureFrom":
		child := e.childOf(cert.RawSubject, o.A)
		if child == nil {
			// no such child can be built (the subject is not a parseable name): nothing to check
			f = func() error { return fmt.Errorf("no child") }
		} else {
			f = func() error { return child.CheckSignatureFrom(cert) }
		}
	case "CheckSignature":
		n, _ := strconv.Atoi(o.A)
		f = func() error {
			e1 := cert.CheckSignature(x509.SignatureAlgorithm(n), cert.RawTBSCertificate, bytes.Repeat([]byte{0x5a}, 64))
			e2 := cert.CheckSignature(x509.SignatureAlgorithm(n), cert.RawTBSCertificate, []byte{0x30, 0x06, 0x02, 0x01, 0x05, 0x02, 0x01, 0x07})
			e3 := cert.CheckSignature(x509.SignatureAlgorithm(n), nil, nil)
			if e1 != nil {
				return e1
			}
			if e2 != nil {
				return e2
			}
			return e3
		}
	case "VerifyHostname":
		h := o.A
		if v, ok := hostArg[h]; ok {
			h = v
		}
		f = func() error { return cert.VerifyHostname(h) }
	default:
		obs.Fatal("the model names operation %q which the harness does not bind", o.Op)
	}
	r := inputs.Call(o.Op, mode, f)
	return r, same
}

func (s *summary) add(o op, r inputs.Result, same string) {
	x := s.byOp[o]
	if x == nil {
		x = &opRes{Op: o.Op, A: o.A, os: map[string]bool{}, same: map[string]bool{}}
		s.byOp[o] = x
		s.R = append(s.R, x)
	}
	x.os[r.O] = true
	x.same[same] = true
	if r.Ms > x.Ms {
		x.Ms = r.Ms
	}
}

// witness keeps one concrete failing case per distinct (operation, argument, outcome) of the
// summary: the first one seen.
func (s *summary) witness(o op, res inputs.Result, same, mode, seed string, prog []op, der []byte) {
	if (res.O == "ok" || res.O == "err" || res.O == "skip" || res.O == "notrun") && same != "differs" {
		return
	}
	for _, b := range s.Bad {
		if b.Op == o.Op && b.A == o.A && b.O == res.O && b.Same == same {
			return
		}
	}
	if len(s.Bad) >= 120 {
		return
	}
	b := badOp{Op: o.Op, A: o.A, O: res.O, Same: same, Msg: res.Msg, Site: res.Site, Mode: mode, Seed: seed, Prog: prog, HexOf: len(s.Bad)}
	if s.Src != "shape" && len(der) <= 1<<15 {
		// the input bytes are stored once per distinct input of the summary
		h := hex.EncodeToString(der)
		for i := range s.Bad {
			if s.Bad[i].Hex == h {
				b.HexOf = i
				h = ""
				break
			}
		}
		b.Hex = h
	}
	s.Bad = append(s.Bad, b)
}

func (e *env) emit(s *summary) {
	for _, x := range s.R {
		for k := range x.os {
			x.OS = append(x.OS, k)
		}
		for k := range x.same {
			x.Same = append(x.Same, k)
		}
		sort.Strings(x.OS)
		sort.Strings(x.Same)
	}
	if s.V == nil {
		s.V = [][]string{}
	}
	if s.P == nil {
		s.P = []inputs.Mut{}
	}
	if s.R == nil {
		s.R = []*opRes{}
	}
	e.out.Write(s)
	e.nsum++
}

// subject: run every program on der in both modes, into s (summary mode) or one summary per
// (mode) (detail mode)
func (e *env) subject(base summary, der []byte, seed string, programs [][]op) {
	e.curSeed = seed
	if base.Src == "shape" && e.jsonRepeats < 8 {
		// shapes: enough serialisations that an order decided by a coin flip is seen (> 99 %)
		defer func(n int) { e.jsonRepeats = n }(e.jsonRepeats)
		e.jsonRepeats = 8
	}
	var s *summary
	if !e.detail {
		s = &base
		s.byOp = map[op]*opRes{}
	}
	for _, mode := range e.model.Modes {
		if e.detail {
			c := base
			s = &c
			s.byOp = map[op]*opRes{}
			s.Seed, s.Mode = seed, mode
		}
		s.N++
		var cert *x509.Certificate
		r := inputs.Call("parse", mode, func() error {
			var err error
			cert, err = x509.ParseCertificate(der)
			return err
		})
		if r.O == "ok" {
			s.Acc++
			s.NProg = len(programs)
			for _, prog := range programs {
				c := cert
				if len(programs) > 1 {
					// a freshly parsed copy per program
					inputs.SetMode(mode)
					c2, err := x509.ParseCertificate(der)
					inputs.SetMode("strict")
					if err != nil {
						obs.Fatal("second parse of an accepted certificate failed: %v", err)
					}
					c = c2
				}
				for _, o := range prog {
					res, same := e.apply(c, o, mode)
					s.add(o, res, same)
					s.witness(o, res, same, mode, seed, prog, der)
				}
			}
		}
		if e.detail {
			e.emit(s)
		}
	}
	if !e.detail {
		e.emit(s)
	}
}

type onlyFilter struct {
	Shapes []int `json:"shapes"`
	Progs  []int `json:"progs"`
	shapes map[int]bool
	progs  map[int]bool
}

func loadOnly(path string) *onlyFilter {
	if path == "" || path == "-" {
		return nil
	}
	b, err := os.ReadFile(path)
	if err != nil {
		obs.Fatal("only: %v", err)
	}
	var f onlyFilter
	if err := json.Unmarshal(b, &f); err != nil {
		obs.Fatal("only: %v", err)
	}
	f.shapes, f.progs = map[int]bool{}, map[int]bool{}
	for _, x := range f.Shapes {
		f.shapes[x] = true
	}
	for _, x := range f.Progs {
		f.progs[x] = true
	}
	return &f
}

func newEnv(certModelPath, inputsModelPath string) *env {
	b, err := os.ReadFile(certModelPath)
	if err != nil {
		obs.Fatal("cert model: %v", err)
	}
	cm := &certModel{}
	if err := json.Unmarshal(b, cm); err != nil {
		obs.Fatal("cert model: %v", err)
	}
	if len(cm.Shapes) != cm.NShapes || len(cm.Programs) != cm.NPrograms || cm.NShapes == 0 {
		obs.Fatal("cert model: inconsistent counts")
	}
	// canonical order (TLC's set order is not stable): by JSON text
	sort.Slice(cm.Shapes, func(i, j int) bool { return cm.Shapes[i].String() < cm.Shapes[j].String() })
	m, err := inputs.LoadModel(inputsModelPath)
	if err != nil {
		obs.Fatal("model: %v", err)
	}
	repo := os.Getenv("VERIF_REPO")
	if repo == "" {
		repo = "/repo"
	}
	e := &env{cm: cm, model: m, jsonRepeats: 2, parents: map[string]*x509.Certificate{}, childs: map[string]*x509.Certificate{}, certs: map[string][]byte{}}
	e.seeds = inputs.BuildSeeds(repo, fmt.Sprintf("c02-%d", obs.Seed()))
	for _, sd := range e.seeds.ByKind["cert"] {
		e.certs[sd.Name] = sd.Data
	}
	// the candidate "issuer" / "unrelated" parents: the Ed25519 root (issuer of every shape
	// certificate) and a P-256 root
	inputs.Aux.Issuer = parseEither(e.certs["ed-root"])
	inputs.Aux.Leaf = parseEither(e.certs["p256-root"])
	if inputs.Aux.Issuer == nil || inputs.Aux.Leaf == nil {
		obs.Fatal("cannot parse the root seeds")
	}
	// the program applying every operation once, JSON check first and last
	e.allOps = append([]op{{"MarshalJSON2", "-"}}, cm.Ops...)
	sort.Slice(e.allOps[1:], func(i, j int) bool {
		a, b := e.allOps[1+i], e.allOps[1+j]
		return a.Op+"/"+a.A < b.Op+"/"+b.A
	})
	e.allOps = append(e.allOps, op{"MarshalJSON2", "-"})
	inputs.StartWatchdog(time.Duration(m.TimeLimitMs) * time.Millisecond)
	return e
}

// checkShape is the concretisation check: the certificate built for a shape carries exactly the
// extension the shape describes (re-derived from the real certificate).
func checkShape(s inputs.Shape, der []byte) {
	ext := inputs.ShapeExtension(s)
	root, err := dertree.Parse(der)
	if err != nil {
		obs.Fatal("shape %s: %v", s, err)
	}
	if ext == nil {
		return
	}
	want := dertree.Encode(ext.Clone())
	if !bytes.Contains(der, want) {
		obs.Fatal("shape %s: the built certificate does not contain the shaped extension", s)
	}
	_ = root
}

func loadPrograms(path string) []*inputs.Program {
	var res []*inputs.Program
	if path == "-" {
		return nil
	}
	err := obs.ReadLines(path, func(line []byte) error {
		if line[0] == '"' {
			var s string
			if err := json.Unmarshal(line, &s); err != nil {
				return err
			}
			line = []byte(s)
		}
		var p inputs.Program
		if err := json.Unmarshal(line, &p); err != nil {
			return err
		}
		res = append(res, &p)
		return nil
	})
	if err != nil {
		obs.Fatal("programs: %v", err)
	}
	return res
}

func atoi(s string) int {
	v, err := strconv.Atoi(s)
	if err != nil {
		obs.Fatal("bad number %q", s)
	}
	return v
}

func opt(a []string, i int, def string) string {
	if i < len(a) {
		return a[i]
	}
	return def
}

type replayCase struct {
	Src  string       `json:"src"`
	X    string       `json:"x"`
	V    [][]string   `json:"v"`
	P    []inputs.Mut `json:"p"`
	Seed string       `json:"seed"`
	Prog []op         `json:"prog"`
	Hex  string       `json:"hex"`
	I    int          `json:"i"`
}

func main() {
	if len(os.Args) < 3 {
		obs.Fatal("usage: c02 run|one ...")
	}
	a := os.Args[2:]
	if os.Getenv("VERIF_C02_STATE") == "" {
		// supervisor: the work happens in worker children of this binary
		switch os.Args[1] {
		case "run", "one":
			supervise(a[3])
			return
		}
	}
	childInit()
	switch os.Args[1] {
	case "run":
		e := newEnv(a[0], a[1])
		progs := loadPrograms(a[2])
		shard, nshards := atoi(a[4]), atoi(a[5])
		e.detail = opt(a, 6, "summary") == "detail"
		only := loadOnly(opt(a, 7, "-"))
		e.out = newFlushWriter(a[3])
		for i, s := range e.cm.Shapes {
			if i%nshards != shard || (only != nil && !only.shapes[i]) {
				continue
			}
			e.curSubj = fmt.Sprintf("a%07d", i)
			if skipSubject(e.curSubj) {
				continue
			}
			beginSubject()
			der := inputs.BuildShapeCert(s)
			checkShape(s, der)
			e.subject(summary{Src: "shape", X: s.X, V: s.V, I: i}, der, "shape", e.cm.Programs)
			counters["shapes"]++
		}
		for i, p := range progs {
			if i%nshards != shard || p.K != "cert" || (only != nil && !only.progs[i]) {
				continue
			}
			e.curSubj = fmt.Sprintf("b%07d", i)
			if skipSubject(e.curSubj) {
				continue
			}
			beginSubject()
			base := summary{Src: "mut", P: p.P, I: i}
			var agg *summary
			for _, sd := range e.seeds.ByKind["cert"] {
				if sd.NoMutate || (len(p.P) > 0 && sd.Class != "gen" && strings.Contains(sd.Name, "#")) {
					continue
				}
				der, _, applied, err := e.model.Concretise(sd, p.P, obs.Seed())
				if err != nil {
					obs.Fatal("concretise: %v", err)
				}
				if !applied {
					continue
				}
				counters["mutated_inputs"]++
				if e.detail {
					e.subject(base, der, sd.Name, [][]op{e.allOps})
					continue
				}
				// summary mode: merge all seeds of the program
				if agg == nil {
					c := base
					agg = &c
					agg.byOp = map[op]*opRes{}
				}
				e.mergeSubject(agg, der, sd.Name)
			}
			if agg != nil {
				e.emit(agg)
			}
			counters["mutated_programs"]++
		}
		e.out.Close()
		for _, k := range []string{"shapes", "mutated_programs", "mutated_inputs", "calls_not_run"} {
			obs.Stat(k, counters[k])
		}
	case "one":
		e := newEnv(a[0], a[1])
		e.detail = true
		var c replayCase
		obs.ReadReplay(a[2], &c)
		e.out = newFlushWriter(a[3])
		e.curSubj = "a0000000"
		beginSubject()
		e.jsonRepeats = 16
		var der []byte
		if c.Src == "shape" {
			// re-issue the certificate from the shape (fresh keys)
			der = inputs.BuildShapeCert(inputs.Shape{X: c.X, V: c.V})
		} else {
			// re-concretise the mutation program on the named seed of this run; the recorded bytes
			// are only a fallback (seeds are re-generated with fresh keys in every process)
			for _, sd := range e.seeds.ByKind["cert"] {
				if sd.Name == c.Seed {
					if out, _, applied, err := e.model.Concretise(sd, c.P, obs.Seed()); err == nil && applied {
						der = out
					}
				}
			}
			if der == nil {
				der, _ = hex.DecodeString(c.Hex)
			}
			if len(der) == 0 {
				obs.Fatal("replay: no input bytes")
			}
		}
		prog := c.Prog
		if len(prog) == 0 {
			prog = e.allOps
		}
		programs := e.cm.Programs
		if c.Src != "shape" {
			programs = [][]op{e.allOps}
		}
		_ = prog
		e.subject(summary{Src: c.Src, X: c.X, V: c.V, P: c.P, I: c.I}, der, c.Seed, programs)
		e.out.Close()
	default:
		obs.Fatal("unknown command")
	}
}

// mergeSubject: like subject for the all-operations program, accumulating into agg.
func (e *env) mergeSubject(agg *summary, der []byte, seed string) {
	e.curSeed = seed
	for _, mode := range e.model.Modes {
		agg.N++
		var cert *x509.Certificate
		r := inputs.Call("parse", mode, func() error {
			var err error
			cert, err = x509.ParseCertificate(der)
			return err
		})
		if r.O != "ok" {
			continue
		}
		agg.Acc++
		agg.NProg = 1
		for _, o := range e.allOps {
			res, same := e.apply(cert, o, mode)
			agg.add(o, res, same)
			agg.witness(o, res, same, mode, seed, nil, der)
		}
	}
}
